#!/bin/bash
# tools/soak.sh <tier> <first seed> <last seed>   - runs the check on the unchanged tree for a range of seeds
# (evidence and replays go to a scratch directory so that the committed evidence file is not touched)
tier=$1; a=$2; b=$3
cd "$(dirname "$0")/.." || exit 2
D=$(mktemp -d "$PWD/scratch/soak.XXXXXX")
bad=0
for s in $(seq "$a" "$b"); do
  HTSIM_EVIDENCE_DIR=$D HTSIM_REPLAY_DIR=$D/replays ./check C13 --tier "$tier" --seed "$s" > "$D/out.$s" 2>&1
  rc=$?
  line=$(grep '^runs=' "$D/out.$s" | cut -c1-200)
  echo "seed=$s exit=$rc $line"
  if [ $rc -ne 0 ]; then bad=$((bad+1)); grep -E '^VIOLATION|^HARNESS|^KNOWN' "$D/out.$s" | cut -c1-600; mkdir -p scratch/soak-keep; cp -r "$D" scratch/soak-keep/; fi
done
echo "soak done: tier=$tier seeds=$a..$b non-zero exits=$bad"
[ $bad -eq 0 ] && rm -rf "$D"
exit 0
