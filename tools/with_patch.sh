#!/bin/bash
# tools/with_patch.sh <patch.diff> <command...>
# Runs <command> with HTSIM_SRC pointing at a scratch copy of /repo/src with the patch applied
# (so /repo itself is never touched); the scratch copy is removed afterwards.
set -u
patch="$(realpath "$1")"; shift
D="$(mktemp -d /tmp/htsim-mut.XXXXXX)"
trap 'rm -rf "$D"' EXIT
cp -r /repo/src "$D/src"
( cd "$D" && git init -q . && git apply --whitespace=nowarn "$patch" ) || { echo "PATCH DOES NOT APPLY"; exit 3; }
HTSIM_SRC="$D/src" "$@"
