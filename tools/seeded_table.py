#!/usr/bin/env python3
"""Regenerates the table of DESIGN.md section 11 from seeded/*/meta.json and seeded/RESULTS.json."""
import glob, json, os, re
V = os.path.dirname(os.path.dirname(os.path.abspath(__file__)))
res = json.load(open(os.path.join(V, "seeded", "RESULTS.json"))) if os.path.exists(os.path.join(V, "seeded", "RESULTS.json")) else {}
rows = ["| id | author | change | needs, in order to manifest | quick check (seed %s) | caught by |" % next((str(v.get("seed")) for v in res.values() if "seed" in v), "?"),
        "|----|--------|--------|-----------------------------|--------------|-----------|"]
for m in sorted(glob.glob(os.path.join(V, "seeded", "*", "meta.json"))):
    d = json.load(open(m))
    r = res.get(d["id"], {})
    if "exit" not in r:
        verdict, by = "not run", ""
    else:
        if d.get("expected") == "clean" or d["id"].startswith("M11"):
            verdict = "clean, as expected (negative control)" if not r["detected"] else "**REPORTED - false alarm**"
        else:
            verdict = "**detected**" if r["detected"] else "not detected"
        if r.get("replays_tried"):
            verdict += f" (replays {r['replays_reproduce_on_changed_tree']}/{r['replays_tried']} reproduce, {r['replays_clean_on_unchanged_tree']}/{r['replays_tried']} clean on the unchanged tree)"
        inv = sorted({c.split(":")[0] for c in r.get("violation_classes", [])})
        ops = sorted({c.split(":")[1].split("@")[0].replace("_", ".", 1) for c in r.get("violation_classes", [])})
        by = ", ".join(inv) + (" at " + ", ".join(ops[:4]) + (" …" if len(ops) > 4 else "") if ops else "")
    who = "sub-agent" if d["id"].startswith("S") else "verifier"
    cell = lambda s: s.replace("|", "\\|").replace("\n", " ")
    rows.append(f"| {d['id']} | {who} | {cell(d['change'])} | {cell(d['needs_to_manifest'])} | {verdict} | {by} |")
table = "\n".join(rows)
p = os.path.join(V, "DESIGN.md")
s = open(p).read()
a, b = "<!-- SEEDED-TABLE-BEGIN -->", "<!-- SEEDED-TABLE-END -->"
if a in s:
    s = s[:s.index(a) + len(a)] + "\n" + table + "\n" + s[s.index(b):]
else:
    s += "\n" + a + "\n" + table + "\n" + b + "\n"
open(p, "w").write(s)
print(table)
