#!/usr/bin/env python3
"""Merges per-change sensitivity results (HTSIM_RESULTS=<file> ./check selftest sensitivity, one change at a time)
into seeded/RESULTS.json:  tools/merge_results.py scratch/r9/res-*.json"""
import json, os, sys
V = os.path.dirname(os.path.dirname(os.path.abspath(__file__)))
p = os.path.join(V, "seeded", "RESULTS.json")
res = json.load(open(p))
for f in sys.argv[1:]:
    for k, v in json.load(open(f)).items():
        res[k] = v
        print("merged", k, "detected" if v.get("detected") else "not detected", "scale", v.get("scale"))
json.dump(res, open(p, "w"), indent=1, sort_keys=True)
