#!/bin/bash
# tools/confirm_seeded.sh <worktree>   - confirms a sub-agent's deliverable in <worktree>/_seeded (see DESIGN 11):
# patch == working diff, applies to pristine; demo passes without / fails with the change; the 152 baseline tests pass.
# Writes <worktree>/_seeded/verify.txt
W=$(realpath "$1"); S=$W/_seeded; V=$S/verify.txt
{
echo "## git status"; git -C "$W" status --short -- src
echo "## patch equals working diff?"; git -C "$W" diff -- src | diff -q - "$S/patch.diff" >/dev/null && echo same || echo DIFFERENT
echo "## patch applies to pristine /repo HEAD?"; git -C /repo apply --check "$S/patch.diff" && echo applies
echo "## demo WITH change"; (cd "$S" && PYTHONPATH="$W/src" timeout 900 /venv/bin/python demo.py 2>&1 | grep -v 'conda\|WARNING' | tail -12; echo "exit=${PIPESTATUS[0]}")
echo "## demo WITHOUT change (pristine /repo/src)"; (cd "$S" && PYTHONPATH=/repo/src timeout 900 /venv/bin/python demo.py 2>&1 | grep -v 'conda\|WARNING' | tail -6; echo "exit=${PIPESTATUS[0]}")
echo "## test suite WITH change"
J=$(mktemp /tmp/junit.XXXXXX.xml)
(cd "$W" && PYTHONPATH="$W/src" timeout 3000 /venv/bin/python -m pytest -ra -q -p no:cacheprovider --timeout=900 --continue-on-collection-errors --junitxml="$J" 2>&1 | tail -1)
python3 - "$J" <<'PY'
import sys, json, xml.etree.ElementTree as ET
base = set(json.load(open('/root/.vp/BASELINE.json'))['stable_pass'])
ok = set()
for tc in ET.parse(sys.argv[1]).getroot().iter('testcase'):
    if not any(ch.tag in ('failure', 'error', 'skipped') for ch in tc):
        ok.add(f"{tc.get('classname')}::{tc.get('name')}")
print("baseline stable_pass:", len(base), "missing now:", sorted(base - ok))
PY
rm -f "$J"
} > "$V" 2>&1
echo "done $W"
