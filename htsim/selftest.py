"""./check selftest env|determinism|sensitivity|alphabet  (development-time and CI self-tests; not a property check)"""
import sys


def main(a):
    sub = a.sub or "env"
    if sub == "env":
        return env()
    print("unknown selftest", sub)
    return 2


def env():
    """setup_cmd: everything the checks need is on disk, offline."""
    import os
    from . import pristine
    pristine.setup()
    import numpy
    import qiskit
    print(f"python {sys.version.split()[0]} numpy {numpy.__version__} qiskit {qiskit.__version__} src {pristine.src_dir()} "
          f"fork={'fork' in __import__('multiprocessing').get_all_start_methods()} cpus={os.cpu_count()}")
    return 0
