"""./check selftest env|alphabet|determinism|sensitivity   (self-tests of the simulator; not a property check)"""
import concurrent.futures as cf
import glob
import json
import multiprocessing
import os
import re
import shutil
import subprocess
import sys
import tempfile
import time

VERIF = os.path.dirname(os.path.dirname(os.path.abspath(__file__)))


def main(a):
    sub = a.sub or "env"
    if sub == "env":
        return env()
    if sub == "alphabet":
        return alphabet()
    if sub == "determinism":
        return determinism(a.n or (16 if a.tier == "quick" else 256), a.seed)
    if sub == "sensitivity":
        return sensitivity(a.scale, a.seed, os.environ.get("HTSIM_ONLY"))
    print("unknown selftest", sub)
    return 2


def env():
    """setup_cmd: everything the checks need is on disk, offline."""
    from . import pristine
    pristine.setup()
    import numpy
    import qiskit
    print(f"python {sys.version.split()[0]} numpy {numpy.__version__} qiskit {qiskit.__version__} src {pristine.src_dir()} "
          f"fork={'fork' in multiprocessing.get_all_start_methods()} cpus={os.cpu_count()}")
    return 0


def alphabet():
    from . import pristine, worker
    pristine.setup()
    rep = worker.run_job({"mode": "audit"})
    print(json.dumps(rep.get("audit"), indent=1))
    return 0 if rep.get("audit") and not rep["audit"]["not_in_alphabet"] else 1


# --------------------------------------------------------------------------- determinism

def _digest_task(jobs):
    from . import worker
    out = []
    for j in jobs:
        r = worker.run_job(j)
        out.append((j["batch"], j["i"], r.get("history_digest"), r.get("log_digest"), r.get("harness_error")))
    return out


def determinism(n, seed):
    """N run seeds x {twice in one worker, once in another worker, once with a single-worker pool, once in a
    fresh interpreter under another PYTHONHASHSEED, once under yet another}: event-log digests must agree."""
    from . import driver, fresh, pristine
    scratch = driver.Scratch()
    os.environ["HTSIM_PYC"] = scratch.dir
    pristine.setup()
    t0 = time.time()
    jobs = []
    for b in driver.BATCHES:
        for i in range(max(1, n // len(driver.BATCHES))):
            jobs.append({"mode": "generate", "batch": b, "i": i, "tier": "quick", "want_events": False,
                         "seed": driver.run_seed(seed, "det", b, i)})
    ctx = multiprocessing.get_context("fork")
    results = {}
    with cf.ProcessPoolExecutor(max_workers=16, mp_context=ctx) as pool:
        fa = [pool.submit(_digest_task, [j, j]) for j in jobs]                 # twice in the same worker
        fb = [pool.submit(_digest_task, [j]) for j in reversed(jobs)]          # other worker, other order
        for tag, fs in (("same-worker-twice", fa), ("other-worker", fb)):
            for f in fs:
                for b, i, h, l, err in f.result():
                    results.setdefault((b, i), []).append((tag, h, l, err))
    with cf.ProcessPoolExecutor(max_workers=1, mp_context=ctx) as pool:       # W = 1
        for b, i, h, l, err in pool.submit(_digest_task, jobs[: max(4, len(jobs) // 4)]).result():
            results.setdefault((b, i), []).append(("single-worker", h, l, err))
    procs = []
    for k, hs in enumerate((424242, 7, 990001, 31)):
        part = jobs[k::4]
        if part:
            procs.append((hs, fresh.launch({"mode": "generate", "jobs": part}, hs, VERIF, "/" if k % 2 else scratch.dir, "C")))
    for hs, p in procs:
        for r in fresh.collect(p)["out"]:
            results.setdefault((r["job"]["batch"], r["job"]["i"]), []).append(
                (f"fresh-interpreter-hashseed-{hs}", r.get("history_digest"), r.get("log_digest"), r.get("harness_error")))
    bad = 0
    execs = 0
    for k, lst in sorted(results.items()):
        execs += len(lst)
        sigs = {(h, l) for _, h, l, _ in lst}
        errs = [e for *_, e in lst if e]
        if len(sigs) != 1 or errs:
            bad += 1
            print("NONDETERMINISTIC", k, lst[:6])
    print(f"determinism self-test: {len(results)} run seeds, {execs} executions, {bad} diverging, {time.time() - t0:.0f}s")
    return 0 if bad == 0 else 2


# --------------------------------------------------------------------------- sensitivity

def sensitivity(scale, seed, only=None):
    """Applies every seeded change under /verif/seeded/*/patch.diff to a scratch copy of the tree under
    test and runs the quick check against it. Writes seeded/RESULTS.json."""
    out = {}
    dirs = sorted(glob.glob(os.path.join(VERIF, "seeded", "*", "patch.diff")))
    for patch in dirs:
        sid = os.path.basename(os.path.dirname(patch))
        if only and not re.search(only, sid):
            continue
        d = tempfile.mkdtemp(prefix="htsim-mut.")
        try:
            shutil.copytree("/repo/src", os.path.join(d, "src"))
            subprocess.run(["git", "init", "-q", "."], cwd=d, check=True)
            r = subprocess.run(["git", "apply", "--whitespace=nowarn", patch], cwd=d, capture_output=True, text=True)
            if r.returncode != 0:
                out[sid] = {"error": "patch does not apply: " + r.stderr[-300:]}
                print(sid, "PATCH DOES NOT APPLY")
                continue
            env = dict(os.environ)
            env["HTSIM_SRC"] = os.path.join(d, "src")
            env["HTSIM_EVIDENCE_DIR"] = d
            env["HTSIM_REPLAY_DIR"] = os.path.join(d, "replays")
            t0 = time.time()
            r = subprocess.run([os.path.join(VERIF, "check"), "C13", "--tier", "quick", "--seed", str(seed),
                                "--scale", str(scale)], capture_output=True, text=True, env=env)
            viol = re.findall(r"^VIOLATION property=C13 replay=\S*?C13-\d+-(K\d|R)\d*-(I\d)-(\S+)\.json", r.stdout, re.M)
            herr = re.findall(r"^HARNESS-ERROR.*", r.stdout, re.M)
            out[sid] = {"exit": r.returncode, "detected": r.returncode == 1,
                        "violation_classes": sorted({f"{inv}:{op}@{b}" for b, inv, op in viol}),
                        "harness_errors": len(herr), "wall_s": round(time.time() - t0), "scale": scale, "seed": seed}
            # every replay file must reproduce on the changed tree and must NOT reproduce on the unchanged tree
            files = sorted(glob.glob(os.path.join(d, "replays", "*.json")))
            rep_ok = rep_clean = 0
            pick = files[:2] + [f for f in files[2:] if "-I2-" in f or "-I3-" in f or "-I4-" in f][:2]
            for f in pick:
                r1 = subprocess.run([os.path.join(VERIF, "check"), "C13", "--replay", f], capture_output=True, text=True, env=env)
                env2 = {k: v for k, v in env.items() if k != "HTSIM_SRC"}
                r2 = subprocess.run([os.path.join(VERIF, "check"), "C13", "--replay", f], capture_output=True, text=True, env=env2)
                rep_ok += int(r1.returncode == 1 and "VIOLATION property=C13" in r1.stdout)
                rep_clean += int(r2.returncode == 0)
            out[sid].update({"replays_tried": len(pick), "replays_reproduce_on_changed_tree": rep_ok,
                             "replays_clean_on_unchanged_tree": rep_clean})
            print(sid, "exit", r.returncode, out[sid]["violation_classes"], f"{out[sid]['wall_s']}s",
                  f"replays {rep_ok}/{len(pick)} reproduce, {rep_clean}/{len(pick)} clean on /repo",
                  ("HARNESS " + herr[0][:200]) if herr else "", flush=True)
        finally:
            shutil.rmtree(d, ignore_errors=True)
    path = os.environ.get("HTSIM_RESULTS") or os.path.join(VERIF, "seeded", "RESULTS.json")
    prev = {}
    if os.path.exists(path):
        with open(path) as f:
            prev = json.load(f)
    prev.update(out)
    with open(path, "w") as f:
        json.dump(prev, f, indent=1, sort_keys=True)
    return 0
