"""Entry point of a TRUE FRESH INTERPRETER (another PYTHONHASHSEED / cwd / locale), for
R2 (single-call evaluations) and R3 (whole-history replays) - DESIGN 2.7.

stdin:  one JSON document {"mode": "eval"|"single"|"replay"|"generate", ...}
stdout: one JSON document (last line, prefixed by a marker)
"""
import json
import os
import sys

MARK = "@@HTSIM-FRESH@@"


def main():
    doc = json.loads(sys.stdin.read())
    from . import pristine
    pristine.setup()
    mode = doc["mode"]
    out = None
    if mode == "single":
        # the one request is evaluated in THIS interpreter, no fork in between: the real thing
        pristine.import_library_checked()
        from .evalcore import evaluate
        out = evaluate(doc["req"])
    elif mode == "eval":
        from . import worker
        out = [worker.oracle_eval_fresh_fork(r) for r in doc["reqs"]]
    elif mode in ("replay", "generate"):
        from . import worker
        out = []
        for job in doc["jobs"]:
            rep = worker.run_job(job)
            out.append(rep)
    else:
        raise SystemExit("bad mode")
    meta = {"hashseed": os.environ.get("PYTHONHASHSEED"), "cwd": os.getcwd(), "lc_all": os.environ.get("LC_ALL"),
            "flags_hash_randomization": sys.flags.hash_randomization}
    sys.stdout.write("\n" + MARK + json.dumps({"out": out, "meta": meta}, separators=(",", ":")) + "\n")
    sys.stdout.flush()


def launch(doc, hashseed, verif_dir, cwd="/", lc_all="C", timeout=900, home=None):
    """Start a fresh interpreter; collect its answer with `collect` (which retries once on failure).
    home: HOME / cache / temp directory of that interpreter (default: a new empty one under the scratch space)."""
    import subprocess
    import tempfile
    args = (doc, hashseed, verif_dir, cwd, lc_all, timeout, home)
    env = dict(os.environ)
    if home is None and os.environ.get("HTSIM_PYC"):
        home = tempfile.mkdtemp(prefix="home-fresh-", dir=os.environ["HTSIM_PYC"])
    if home:
        for k in ("HOME", "XDG_CACHE_HOME", "XDG_CONFIG_HOME", "XDG_DATA_HOME", "TMPDIR"):
            env[k] = home
    env["PYTHONHASHSEED"] = str(hashseed)
    env["LC_ALL"] = lc_all
    env["LANG"] = lc_all
    env["PYTHONPATH"] = verif_dir
    env.pop("PYTHONUTF8", None)
    p = subprocess.Popen([sys.executable, "-u", "-c", "from htsim import fresh; fresh.main()"],
                         stdin=subprocess.PIPE, stdout=subprocess.PIPE, stderr=subprocess.PIPE, cwd=cwd, env=env)
    p.stdin.write(json.dumps(doc).encode())
    p.stdin.close()
    p.stdin = None          # already fed and closed: communicate() must not touch it again
    p._htsim_args = args
    return p


def collect(p, timeout=900, _retry=True):
    try:
        return _collect(p, timeout)
    except RuntimeError:
        if not _retry or not hasattr(p, "_htsim_args"):
            raise
        return collect(launch(*p._htsim_args), timeout, _retry=False)


def _collect(p, timeout=900):
    try:
        out, err = p.communicate(timeout=timeout)
    except Exception as e:  # noqa
        p.kill()
        raise RuntimeError(f"fresh interpreter failed: {e}")
    text = out.decode(errors="replace")
    i = text.rfind(MARK)
    if p.returncode != 0 or i < 0:
        raise RuntimeError(f"fresh interpreter exit {p.returncode}: {err.decode(errors='replace')[-1500:]}")
    return json.loads(text[i + len(MARK):])


if __name__ == "__main__":
    main()
