"""Operation alphabet: every public entry point of every module the properties anchor.

An op is `name -> OpSpec(fn, family, inplace, covers)`; `fn(L, *args, **kw)` performs exactly one public
API call (or one constructor + one method call for the two fitter convenience ops). `inplace` names the
positional arguments the API documents as updated in place (their post-state is compared with the
reference's post-state instead of being required unchanged). `covers` names the public callables of the
library the op exercises; `audit()` compares the union with what the tree under test actually exports.
"""
import importlib
import inspect
import pkgutil


class Lib:
    """Lazy access to the real library modules (imported by name only, never reloaded)."""
    _MODS = {
        "sc": "stabilizer_circuits", "mub": "mub_circuits", "tomo": "tomography", "cl": "circuit_lookup",
        "cs": "connectivity_support", "st": "stabilizer", "gr": "graph", "lc": "lc_classes",
        "fl": "find_local_clifford_layer", "rot": "rotate_stabilizer_into_state", "f2": "f2_algebra",
        "li": "linear_index",
    }

    def __getattr__(self, k):
        if k in Lib._MODS:
            m = importlib.import_module("htstabilizer." + Lib._MODS[k])
            setattr(self, k, m)
            return m
        raise AttributeError(k)

    def import_all(self):
        for k in Lib._MODS:
            getattr(self, k)


class OpSpec:
    __slots__ = ("name", "fn", "family", "inplace", "covers")

    def __init__(self, name, fn, family, inplace, covers):
        self.name, self.fn, self.family, self.inplace, self.covers = name, fn, family, inplace, covers

    def inplace_args(self, args, kw):
        if callable(self.inplace):
            return set(self.inplace(args, kw))
        return set(self.inplace)


OPS = {}


def op(name, covers, inplace=()):
    family = name.split(".")[0]
    if isinstance(covers, str):
        covers = [covers]

    def deco(fn):
        OPS[name] = OpSpec(name, fn, family, inplace, covers)
        return fn
    return deco


# --------------------------------------------------------------------------- prep
@op("prep.get_preparation_circuit", "stabilizer_circuits.get_preparation_circuit")
def _(L, stabilizer, *a, **k): return L.sc.get_preparation_circuit(stabilizer, *a, **k)


@op("prep.get_readout_circuit", "stabilizer_circuits.get_readout_circuit")
def _(L, stabilizer, *a, **k): return L.sc.get_readout_circuit(stabilizer, *a, **k)


@op("prep.compress_preparation_circuit", "stabilizer_circuits.compress_preparation_circuit")
def _(L, circuit, *a, **k): return L.sc.compress_preparation_circuit(circuit, *a, **k)


# --------------------------------------------------------------------------- mub
@op("mub.get_mub_circuits", "mub_circuits.get_mub_circuits")
def _(L, n, c): return L.mub.get_mub_circuits(n, c)


@op("mub.get_mubs", "mub_circuits.get_mubs")
def _(L, n, c): return L.mub.get_mubs(n, c)


@op("mub.get_mub_info", "mub_circuits.get_mub_info")
def _(L, n, c): return L.mub.get_mub_info(n, c)


# --------------------------------------------------------------------------- tomo
@op("tomo.stabilizer_measurement_circuit", "tomography.stabilizer_measurement_circuit")
def _(L, prep, stab, *a, **k): return L.tomo.stabilizer_measurement_circuit(prep, stab, *a, **k)


@op("tomo.full_state_tomography_circuits", "tomography.full_state_tomography_circuits")
def _(L, prep, *a, **k): return L.tomo.full_state_tomography_circuits(prep, *a, **k)


@op("tomo.SMF.new", "tomography.StabilizerMeasurementFitter.__init__")
def _(L, result, circuit, *a, **k): return L.tomo.StabilizerMeasurementFitter(result, circuit, *a, **k)


@op("tomo.SMF.expectation_values", "tomography.StabilizerMeasurementFitter.expectation_values")
def _(L, fitter, *a, **k): return fitter.expectation_values(*a, **k)


@op("tomo.SMF.density_matrix", "tomography.StabilizerMeasurementFitter.density_matrix")
def _(L, fitter, *a, **k): return fitter.density_matrix(*a, **k)


@op("tomo.FST.new", "tomography.FullStateTomographyFitter.__init__")
def _(L, result, circuits): return L.tomo.FullStateTomographyFitter(result, circuits)


@op("tomo.FST.expectation_values", "tomography.FullStateTomographyFitter.expectation_values")
def _(L, fitter, *a, **k): return fitter.expectation_values(*a, **k)


@op("tomo.FST.density_matrix", "tomography.FullStateTomographyFitter.density_matrix")
def _(L, fitter, *a, **k): return fitter.density_matrix(*a, **k)


@op("tomo.smf_expectation_values", ["tomography.StabilizerMeasurementFitter.__init__",
                                    "tomography.StabilizerMeasurementFitter.expectation_values"])
def _(L, result, circuit, result_index=0, full=True):
    return L.tomo.StabilizerMeasurementFitter(result, circuit, result_index).expectation_values(full_hilbert_space=full)


@op("tomo.fst_density_matrix", ["tomography.FullStateTomographyFitter.__init__",
                                "tomography.FullStateTomographyFitter.density_matrix"])
def _(L, result, circuits, full=True):
    return L.tomo.FullStateTomographyFitter(result, circuits).density_matrix(full_hilbert_space=full)


@op("tomo.CircuitResult", "tomography.CircuitResult.__init__")
def _(L, counts, *a): return L.tomo.CircuitResult(counts, *a)


@op("tomo.CircuitResult.str", "tomography.CircuitResult.__str__")
def _(L, r): return str(r)


@op("tomo.BinaryResult", "tomography.BinaryResult.__init__")
def _(L, b, c): return L.tomo.BinaryResult(b, c)


@op("tomo.BinaryResult.eq", "tomography.BinaryResult.__eq__")
def _(L, a, b): return a == b


@op("tomo.BinaryResult.str", ["tomography.BinaryResult.__str__", "tomography.BinaryResult.__repr__"])
def _(L, a, *n): return [a.__str__(*n), repr(a)]


@op("tomo.ReadoutInfo", "tomography.ReadoutInfo.__init__")
def _(L, *a): return L.tomo.ReadoutInfo(*a)


@op("tomo.z_pauli_from_bitstring", "tomography.z_pauli_from_bitstring")
def _(L, n, b): return L.tomo.z_pauli_from_bitstring(n, b)


# --------------------------------------------------------------------------- lookup
@op("lookup.stabilizer_circuit_lookup", "circuit_lookup.stabilizer_circuit_lookup")
def _(L, n, c, i): return L.cl.stabilizer_circuit_lookup(n, c, i)


@op("lookup.mub_circuit_lookup", "circuit_lookup.mub_circuit_lookup")
def _(L, n, c): return L.cl.mub_circuit_lookup(n, c)


@op("lookup.parse_circuit", "circuit_lookup.parse_circuit")
def _(L, n, s): return L.cl.parse_circuit(n, s)


@op("lookup.info_parse_circuit", "circuit_lookup.StabilizerCircuitInfo.parse_circuit")
def _(L, info): return info.parse_circuit()


@op("lookup.mubinfo_copy", "circuit_lookup.MUBInfo.copy")
def _(L, info): return info.copy()


@op("lookup.StabilizerCircuitInfo", "circuit_lookup.StabilizerCircuitInfo.__init__")
def _(L, n, line): return L.cl.StabilizerCircuitInfo(n, line)


@op("lookup.MUBInfo", "circuit_lookup.MUBInfo.__init__")
def _(L, n, lines): return L.cl.MUBInfo(n, lines)


# --------------------------------------------------------------------------- conn
@op("conn.get_available_connectivities", "connectivity_support.get_available_connectivities")
def _(L): return L.cs.get_available_connectivities()


@op("conn.is_connectivity_supported", "connectivity_support.is_connectivity_supported")
def _(L, n, c): return L.cs.is_connectivity_supported(n, c)


@op("conn.assert_connectivity_is_supported", "connectivity_support.assert_connectivity_is_supported")
def _(L, n, c): return L.cs.assert_connectivity_is_supported(n, c)


@op("conn.get_connectivity_graph", "connectivity_support.get_connectivity_graph")
def _(L, n, c): return L.cs.get_connectivity_graph(n, c)


# --------------------------------------------------------------------------- stab
@op("stab.new", "stabilizer.Stabilizer.__init__")
def _(L, data, *a, **k): return L.st.Stabilizer(data, *a, **k)


@op("stab.validate", "stabilizer.Stabilizer.validate")
def _(L, s): return s.validate()


@op("stab.expand", "stabilizer.Stabilizer.expand")
def _(L, s): return s.expand()


@op("stab.is_qubit_entangled", "stabilizer.Stabilizer.is_qubit_entangled")
def _(L, s, q): return s.is_qubit_entangled(q)


@op("stab.is_equivalent_mod_phase", "stabilizer.Stabilizer.is_equivalent_mod_phase")
def _(L, s, o): return s.is_equivalent_mod_phase(o)


@op("stab.is_equivalent", "stabilizer.Stabilizer.is_equivalent")
def _(L, s, o): return s.is_equivalent(o)


@op("stab.expectation_value", "stabilizer.Stabilizer.expectation_value")
def _(L, s, p): return s.expectation_value(p)


@op("stab.to_list", "stabilizer.Stabilizer.to_list")
def _(L, s, *a, **k): return s.to_list(*a, **k)


@op("stab.eq", "stabilizer.Stabilizer.__eq__")
def _(L, s, o): return s == o


@op("stab.repr", "stabilizer.Stabilizer.__repr__")
def _(L, s): return repr(s)


# --------------------------------------------------------------------------- graph
@op("graph.new", "graph.Graph.__init__")
def _(L, data): return L.gr.Graph(data)


@op("graph.fully_connected", "graph.Graph.fully_connected")
def _(L, n): return L.gr.Graph.fully_connected(n)


@op("graph.star", "graph.Graph.star")
def _(L, n, *a): return L.gr.Graph.star(n, *a)


@op("graph.linear", "graph.Graph.linear")
def _(L, n): return L.gr.Graph.linear(n)


@op("graph.cycle", "graph.Graph.cycle")
def _(L, n): return L.gr.Graph.cycle(n)


@op("graph.pusteblume", "graph.Graph.pusteblume")
def _(L, n): return L.gr.Graph.pusteblume(n)


@op("graph.decompress", "graph.Graph.decompress")
def _(L, n, i): return L.gr.Graph.decompress(n, i)


@op("graph.compress", "graph.Graph.compress")
def _(L, g): return g.compress()


@op("graph.copy", "graph.Graph.copy")
def _(L, g): return g.copy()


@op("graph.local_complementation", "graph.Graph.local_complementation", inplace=(0,))
def _(L, g, v): return g.local_complementation(v)


@op("graph.local_complemented", "graph.Graph.local_complemented")
def _(L, g, v): return g.local_complemented(v)


@op("graph.add_edge", "graph.Graph.add_edge", inplace=(0,))
def _(L, g, a, b): return g.add_edge(a, b)


@op("graph.remove_edge", "graph.Graph.remove_edge", inplace=(0,))
def _(L, g, a, b): return g.remove_edge(a, b)


@op("graph.add_path", "graph.Graph.add_path", inplace=(0,))
def _(L, g, p): return g.add_path(p)


@op("graph.add_star", "graph.Graph.add_star", inplace=(0,))
def _(L, g, p): return g.add_star(p)


@op("graph.remove_all_edges_to", "graph.Graph.remove_all_edges_to", inplace=(0,))
def _(L, g, v): return g.remove_all_edges_to(v)


@op("graph.clear", "graph.Graph.clear", inplace=(0,))
def _(L, g): return g.clear()


@op("graph.swap", "graph.Graph.swap", inplace=(0,))
def _(L, g, a, b): return g.swap(a, b)


@op("graph.get_edges", "graph.Graph.get_edges")
def _(L, g): return g.get_edges()


@op("graph.edge_count", "graph.Graph.edge_count")
def _(L, g): return g.edge_count()


@op("graph.has_edge", "graph.Graph.has_edge")
def _(L, g, a, b): return g.has_edge(a, b)


@op("graph.to_circuit", "graph.Graph.to_circuit")
def _(L, g): return g.to_circuit()


@op("graph.eq", "graph.Graph.__eq__")
def _(L, g, o): return g == o


# --------------------------------------------------------------------------- lc
@op("lc.determine_lc_class", "lc_classes.determine_lc_class")
def _(L, s): return L.lc.determine_lc_class(s)


@op("lc.determine_direct", ["lc_classes.determine_lc_class2", "lc_classes.determine_lc_class3",
                            "lc_classes.determine_lc_class4", "lc_classes.determine_lc_class5",
                            "lc_classes.determine_lc_class6"])
def _(L, n, s): return getattr(L.lc, f"determine_lc_class{n}")(s)


@op("lc.new", "lc_classes.LCClassBase.__init__")
def _(L, n, i, *data): return getattr(L.lc, f"LCClass{n}")(i, *data)


@op("lc.new_typed", "lc_classes.LCClassBase.__init__")
def _(L, n, t, *data):
    cls = getattr(L.lc, f"LCClass{n}")
    return cls(cls.EntanglementStructure(t), *data)


@op("lc.id", "lc_classes.LCClassBase.id")
def _(L, c): return c.id()


@op("lc.get_graph", ["lc_classes.LCClassBase.get_graph", "lc_classes.LCClass2.get_graph", "lc_classes.LCClass3.get_graph",
                     "lc_classes.LCClass4.get_graph", "lc_classes.LCClass5.get_graph", "lc_classes.LCClass6.get_graph"])
def _(L, c): return c.get_graph()


@op("lc.num_qubits", ["lc_classes.LCClassBase.num_qubits", "lc_classes.LCClass2.num_qubits", "lc_classes.LCClass3.num_qubits",
                      "lc_classes.LCClass4.num_qubits", "lc_classes.LCClass5.num_qubits", "lc_classes.LCClass6.num_qubits"])
def _(L, c): return c.num_qubits()


@op("lc.count", "lc_classes.LCClassBase.count")
def _(L, n): return getattr(L.lc, f"LCClass{n}").count()


@op("lc.LC_GI_size", "lc_classes.LCClassBase.LC_GI_size")
def _(L, n, t): return getattr(L.lc, f"LCClass{n}").LC_GI_size(t)


@op("lc.get_LC_type", ["lc_classes.LCClassBase.get_LC_type", "lc_classes.LCClassBase.get_entanglement_structure"])
def _(L, n, i):
    cls = getattr(L.lc, f"LCClass{n}")
    return [cls.get_LC_type(i), cls.get_entanglement_structure(i)]


@op("lc.str", ["lc_classes.LCClassBase.__str__", "lc_classes.LCClassBase.__repr__", "lc_classes.LCClass6.__repr__"])
def _(L, c): return [str(c), repr(c)]


@op("lc.eq", "lc_classes.LCClassBase.__eq__")
def _(L, c, o): return c == o


@op("lc.count_identity_string", "lc_classes.count_identity_string")
def _(L, sig, s): return L.lc.count_identity_string(sig, s)


@op("lc.count_identity_structures", "lc_classes.count_identity_structures")
def _(L, sig): return L.lc.count_identity_structures(sig)


@op("lc.bits", ["lc_classes.bits", "lc_classes.index_of_first_set_bit", "lc_classes.all_but"])
def _(L, b, n): return [L.lc.bits(b, n), L.lc.index_of_first_set_bit(b), L.lc.all_but(n, L.lc.bits(b, n))]


# --------------------------------------------------------------------------- layer
@op("layer.find_local_clifford_layer", "find_local_clifford_layer.find_local_clifford_layer")
def _(L, R, S, g): return L.fl.find_local_clifford_layer(R, S, g)


@op("layer.check_LC", "find_local_clifford_layer.check_LC")
def _(L, R, S, g, A): return L.fl.check_LC(R, S, g, A)


@op("layer.to_circuit", "find_local_clifford_layer.local_clifford_layer_to_circuit")
def _(L, A): return L.fl.local_clifford_layer_to_circuit(A)


@op("layer.gen_symplectic", "find_local_clifford_layer.generate_local_clifford_symplectic")
def _(L, c): return L.fl.generate_local_clifford_symplectic(c)


@op("layer.gen_symplectic_from_id", "find_local_clifford_layer.generate_local_clifford_symplectic_from_id")
def _(L, ids): return L.fl.generate_local_clifford_symplectic_from_id(ids)


@op("layer.gen_single_qubit_symplectic", "find_local_clifford_layer.generate_single_qubit_symplectic")
def _(L, c, n, i): return L.fl.generate_single_qubit_symplectic(c, n, i)


# --------------------------------------------------------------------------- rot
def _rot_inplace(args, kw):
    flag = kw.get("inplace", args[2] if len(args) > 2 else False)
    return (0,) if flag else ()


@op("rot.rotate_stabilizer_into_state", "rotate_stabilizer_into_state.rotate_stabilizer_into_state", inplace=_rot_inplace)
def _(L, circuit, target, *a, **k): return L.rot.rotate_stabilizer_into_state(circuit, target, *a, **k)


@op("rot.synth_circuit_from_stabilizers", "rotate_stabilizer_into_state.synth_circuit_from_stabilizers")
def _(L, stabs, *a, **k): return L.rot.synth_circuit_from_stabilizers(stabs, *a, **k)


@op("rot.do_prepare_same_state", "rotate_stabilizer_into_state.do_prepare_same_state")
def _(L, a, b): return L.rot.do_prepare_same_state(a, b)


@op("rot.assert_same_state", "rotate_stabilizer_into_state.assert_same_state")
def _(L, a, b): return L.rot.assert_same_state(a, b)


# --------------------------------------------------------------------------- f2
@op("f2.rref", "f2_algebra.rref")
def _(L, A): return L.f2.rref(A)


@op("f2.rank", "f2_algebra.rank")
def _(L, A): return L.f2.rank(A)


@op("f2.null_space", "f2_algebra.null_space")
def _(L, A): return L.f2.null_space(A)


@op("f2.rref_and_basis_change", "f2_algebra.rref_and_basis_change")
def _(L, A): return L.f2.rref_and_basis_change(A)


@op("f2.mat_mul", "f2_algebra.mat_mul")
def _(L, A, B): return L.f2.mat_mul(A, B)


@op("f2.add", "f2_algebra.add")
def _(L, A, B): return L.f2.add(A, B)


@op("f2.trf", ["f2_algebra.trf_swap_rows", "f2_algebra.trf_add_row"])
def _(L, i, j, m): return [L.f2.trf_swap_rows(i, j, m), L.f2.trf_add_row(i, j, m)]


# --------------------------------------------------------------------------- lin
_LIN = ["0", "12", "13", "14", "15", "22", "112", "23", "122", "123", "33", "24", "222", "1122", "1113", "1122s"]


@op("lin.to", ["linear_index.to_" + n for n in _LIN])
def _(L, name, idx): return getattr(L.li, "to_" + name)(idx)


@op("lin.from", ["linear_index.from_" + n for n in _LIN])
def _(L, name, r): return getattr(L.li, "from_" + name)(r)


@op("lin.1n", ["linear_index.to_1n", "linear_index.from_1n"])
def _(L, n, idx):
    r = L.li.to_1n(n, idx)
    return [r, L.li.from_1n(n, r)]


@op("lin.choose2_from", "linear_index.linear_index_from_n_choose_2")
def _(L, n, i, j): return L.li.linear_index_from_n_choose_2(n, i, j)


@op("lin.choose2_to", "linear_index.linear_index_to_n_choose2_to")
def _(L, n, i): return L.li.linear_index_to_n_choose2_to(n, i)


# NTuple sorts the list it is given ("tuples of integer that are sorted upon creation"), and Repr wraps
# inner lists into NTuples: documented in-place effect on argument 0
@op("lin.NTuple", "linear_index.NTuple.__init__", inplace=(0,))
def _(L, data): return L.li.NTuple(data)


@op("lin.NTuple.query", ["linear_index.NTuple.__len__", "linear_index.NTuple.__getitem__", "linear_index.NTuple.__eq__",
                         "linear_index.NTuple.__str__", "linear_index.NTuple.__repr__"])
def _(L, t, o): return [len(t), t[0] if len(t) else None, t == o, str(t), repr(t)]


@op("lin.Repr", "linear_index.Repr.__init__", inplace=(0,))
def _(L, *data): return L.li.Repr(*data)


@op("lin.Repr.query", ["linear_index.Repr.get", "linear_index.Repr.flatten", "linear_index.Repr.__eq__",
                       "linear_index.Repr.__repr__"])
def _(L, r, o, size, index):
    out = [r == o, repr(r)]
    try:
        out.append(r.get(size, index))
    except IndexError as e:
        out.append("IndexError")
    try:
        out.append(r.flatten())
    except TypeError:
        out.append("TypeError")
    return out


@op("lin.Repr.add", "linear_index.Repr.add", inplace=(0,))
def _(L, r, t): return r.add(t)


FAMILIES = sorted({s.family for s in OPS.values()})

# public callables deliberately outside the alphabet, with the reason
NOT_COVERED = {
    "graph.Graph.draw": "matplotlib rendering; opens figures, not a value-returning API of the properties",
}


def audit():
    """Public callables of the tree under test that no op covers (and covered names that no longer exist)."""
    import htstabilizer
    exported = set()
    for mi in pkgutil.iter_modules(htstabilizer.__path__):
        if mi.name in ("data", "graph_draw"):
            continue
        m = importlib.import_module("htstabilizer." + mi.name)
        for n, v in vars(m).items():
            if n.startswith("_"):
                continue
            if inspect.isfunction(v) and v.__module__ == m.__name__:
                exported.add(f"{mi.name}.{n}")
            elif inspect.isclass(v) and v.__module__ == m.__name__:
                for k, w in vars(v).items():
                    if k.startswith("_") and k not in ("__init__", "__eq__", "__str__", "__repr__", "__len__", "__getitem__"):
                        continue
                    if inspect.isfunction(w) or isinstance(w, (staticmethod, classmethod)):
                        exported.add(f"{mi.name}.{n}.{k}")
    covered = {c for s in OPS.values() for c in s.covers}
    missing = sorted(exported - covered - set(NOT_COVERED))
    # subclasses' __init__ etc. are inherited; LCClassN.__init__ is LCClassBase.__init__
    stale = sorted(covered - exported)
    return {"exported": len(exported), "covered": len(covered & exported), "not_in_alphabet": missing,
            "deliberately_excluded": NOT_COVERED, "stale_cover_names": stale}
