"""Operation alphabet: every public entry point of every module the properties anchor.

An op is `name -> OpSpec(fn, family, inplace)`; `fn(L, *args, **kw)` performs exactly one public API
call (or one constructor + one method call for the fitter convenience ops). `inplace` names the
positional arguments that the API documents as updated in place (their post-state is compared with the
reference's post-state instead of being required unchanged).
"""
import importlib


class Lib:
    """Lazy access to the real library modules (imported by name only, never reloaded)."""
    _MODS = {
        "sc": "stabilizer_circuits", "mub": "mub_circuits", "tomo": "tomography", "cl": "circuit_lookup",
        "cs": "connectivity_support", "st": "stabilizer", "gr": "graph", "lc": "lc_classes",
        "fl": "find_local_clifford_layer", "rot": "rotate_stabilizer_into_state", "f2": "f2_algebra",
        "li": "linear_index",
    }

    def __getattr__(self, k):
        if k in Lib._MODS:
            m = importlib.import_module("htstabilizer." + Lib._MODS[k])
            setattr(self, k, m)
            return m
        raise AttributeError(k)

    def import_all(self):
        for k in Lib._MODS:
            getattr(self, k)


class OpSpec:
    __slots__ = ("name", "fn", "family", "inplace")

    def __init__(self, name, fn, family, inplace):
        self.name, self.fn, self.family, self.inplace = name, fn, family, inplace

    def inplace_args(self, args, kw):
        if callable(self.inplace):
            return set(self.inplace(args, kw))
        return set(self.inplace)


OPS = {}


def op(name, inplace=()):
    family = name.split(".")[0]

    def deco(fn):
        OPS[name] = OpSpec(name, fn, family, inplace)
        return fn
    return deco


# --------------------------------------------------------------------------- prep
@op("prep.get_preparation_circuit")
def _(L, stabilizer, *a, **k): return L.sc.get_preparation_circuit(stabilizer, *a, **k)


@op("prep.get_readout_circuit")
def _(L, stabilizer, *a, **k): return L.sc.get_readout_circuit(stabilizer, *a, **k)


@op("prep.compress_preparation_circuit")
def _(L, circuit, *a, **k): return L.sc.compress_preparation_circuit(circuit, *a, **k)


# --------------------------------------------------------------------------- mub
@op("mub.get_mub_circuits")
def _(L, n, c): return L.mub.get_mub_circuits(n, c)


@op("mub.get_mubs")
def _(L, n, c): return L.mub.get_mubs(n, c)


@op("mub.get_mub_info")
def _(L, n, c): return L.mub.get_mub_info(n, c)


# --------------------------------------------------------------------------- tomo
@op("tomo.stabilizer_measurement_circuit")
def _(L, prep, stab, *a, **k): return L.tomo.stabilizer_measurement_circuit(prep, stab, *a, **k)


@op("tomo.full_state_tomography_circuits")
def _(L, prep, *a, **k): return L.tomo.full_state_tomography_circuits(prep, *a, **k)


@op("tomo.SMF.new")
def _(L, result, circuit, *a, **k): return L.tomo.StabilizerMeasurementFitter(result, circuit, *a, **k)


@op("tomo.SMF.expectation_values")
def _(L, fitter, *a, **k): return fitter.expectation_values(*a, **k)


@op("tomo.SMF.density_matrix")
def _(L, fitter, *a, **k): return fitter.density_matrix(*a, **k)


@op("tomo.FST.new")
def _(L, result, circuits): return L.tomo.FullStateTomographyFitter(result, circuits)


@op("tomo.FST.expectation_values")
def _(L, fitter, *a, **k): return fitter.expectation_values(*a, **k)


@op("tomo.FST.density_matrix")
def _(L, fitter, *a, **k): return fitter.density_matrix(*a, **k)


@op("tomo.smf_expectation_values")
def _(L, result, circuit, result_index=0, full=True):
    return L.tomo.StabilizerMeasurementFitter(result, circuit, result_index).expectation_values(full_hilbert_space=full)


@op("tomo.fst_density_matrix")
def _(L, result, circuits, full=True):
    return L.tomo.FullStateTomographyFitter(result, circuits).density_matrix(full_hilbert_space=full)


@op("tomo.CircuitResult")
def _(L, counts, *a): return L.tomo.CircuitResult(counts, *a)


@op("tomo.z_pauli_from_bitstring")
def _(L, n, b): return L.tomo.z_pauli_from_bitstring(n, b)


# --------------------------------------------------------------------------- lookup
@op("lookup.stabilizer_circuit_lookup")
def _(L, n, c, i): return L.cl.stabilizer_circuit_lookup(n, c, i)


@op("lookup.mub_circuit_lookup")
def _(L, n, c): return L.cl.mub_circuit_lookup(n, c)


@op("lookup.parse_circuit")
def _(L, n, s): return L.cl.parse_circuit(n, s)


@op("lookup.info_parse_circuit")
def _(L, info): return info.parse_circuit()


@op("lookup.mubinfo_copy")
def _(L, info): return info.copy()


# --------------------------------------------------------------------------- conn
@op("conn.get_available_connectivities")
def _(L): return L.cs.get_available_connectivities()


@op("conn.is_connectivity_supported")
def _(L, n, c): return L.cs.is_connectivity_supported(n, c)


@op("conn.assert_connectivity_is_supported")
def _(L, n, c): return L.cs.assert_connectivity_is_supported(n, c)


@op("conn.get_connectivity_graph")
def _(L, n, c): return L.cs.get_connectivity_graph(n, c)


# --------------------------------------------------------------------------- stab
@op("stab.new")
def _(L, data, *a, **k): return L.st.Stabilizer(data, *a, **k)


@op("stab.validate")
def _(L, s): return s.validate()


@op("stab.expand")
def _(L, s): return s.expand()


@op("stab.is_qubit_entangled")
def _(L, s, q): return s.is_qubit_entangled(q)


@op("stab.is_equivalent_mod_phase")
def _(L, s, o): return s.is_equivalent_mod_phase(o)


@op("stab.to_list")
def _(L, s, *a, **k): return s.to_list(*a, **k)


@op("stab.eq")
def _(L, s, o): return s == o


@op("stab.repr")
def _(L, s): return repr(s)


# --------------------------------------------------------------------------- graph
@op("graph.new")
def _(L, data): return L.gr.Graph(data)


@op("graph.fully_connected")
def _(L, n): return L.gr.Graph.fully_connected(n)


@op("graph.star")
def _(L, n, *a): return L.gr.Graph.star(n, *a)


@op("graph.linear")
def _(L, n): return L.gr.Graph.linear(n)


@op("graph.cycle")
def _(L, n): return L.gr.Graph.cycle(n)


@op("graph.pusteblume")
def _(L, n): return L.gr.Graph.pusteblume(n)


@op("graph.decompress")
def _(L, n, i): return L.gr.Graph.decompress(n, i)


@op("graph.compress")
def _(L, g): return g.compress()


@op("graph.copy")
def _(L, g): return g.copy()


@op("graph.local_complementation", inplace=(0,))
def _(L, g, v): return g.local_complementation(v)


@op("graph.local_complemented")
def _(L, g, v): return g.local_complemented(v)


@op("graph.add_edge", inplace=(0,))
def _(L, g, a, b): return g.add_edge(a, b)


@op("graph.remove_edge", inplace=(0,))
def _(L, g, a, b): return g.remove_edge(a, b)


@op("graph.add_path", inplace=(0,))
def _(L, g, p): return g.add_path(p)


@op("graph.add_star", inplace=(0,))
def _(L, g, p): return g.add_star(p)


@op("graph.remove_all_edges_to", inplace=(0,))
def _(L, g, v): return g.remove_all_edges_to(v)


@op("graph.clear", inplace=(0,))
def _(L, g): return g.clear()


@op("graph.swap", inplace=(0,))
def _(L, g, a, b): return g.swap(a, b)


@op("graph.get_edges")
def _(L, g): return g.get_edges()


@op("graph.edge_count")
def _(L, g): return g.edge_count()


@op("graph.has_edge")
def _(L, g, a, b): return g.has_edge(a, b)


@op("graph.to_circuit")
def _(L, g): return g.to_circuit()


@op("graph.eq")
def _(L, g, o): return g == o


# --------------------------------------------------------------------------- lc
@op("lc.determine_lc_class")
def _(L, s): return L.lc.determine_lc_class(s)


@op("lc.new")
def _(L, n, i): return getattr(L.lc, f"LCClass{n}")(i)


@op("lc.id")
def _(L, c): return c.id()


@op("lc.get_graph")
def _(L, c): return c.get_graph()


@op("lc.count")
def _(L, n): return getattr(L.lc, f"LCClass{n}").count()


@op("lc.str")
def _(L, c): return str(c)


@op("lc.eq")
def _(L, c, o): return c == o


# --------------------------------------------------------------------------- layer
@op("layer.find_local_clifford_layer")
def _(L, R, S, g): return L.fl.find_local_clifford_layer(R, S, g)


@op("layer.check_LC")
def _(L, R, S, g, A): return L.fl.check_LC(R, S, g, A)


@op("layer.to_circuit")
def _(L, A): return L.fl.local_clifford_layer_to_circuit(A)


@op("layer.gen_symplectic")
def _(L, c): return L.fl.generate_local_clifford_symplectic(c)


@op("layer.gen_symplectic_from_id")
def _(L, ids): return L.fl.generate_local_clifford_symplectic_from_id(ids)


# --------------------------------------------------------------------------- rot
def _rot_inplace(args, kw):
    flag = kw.get("inplace", args[2] if len(args) > 2 else False)
    return (0,) if flag else ()


@op("rot.rotate_stabilizer_into_state", inplace=_rot_inplace)
def _(L, circuit, target, *a, **k): return L.rot.rotate_stabilizer_into_state(circuit, target, *a, **k)


@op("rot.synth_circuit_from_stabilizers")
def _(L, stabs, *a, **k): return L.rot.synth_circuit_from_stabilizers(stabs, *a, **k)


@op("rot.do_prepare_same_state")
def _(L, a, b): return L.rot.do_prepare_same_state(a, b)


# --------------------------------------------------------------------------- f2
@op("f2.rref")
def _(L, A): return L.f2.rref(A)


@op("f2.rank")
def _(L, A): return L.f2.rank(A)


@op("f2.null_space")
def _(L, A): return L.f2.null_space(A)


@op("f2.rref_and_basis_change")
def _(L, A): return L.f2.rref_and_basis_change(A)


@op("f2.mat_mul")
def _(L, A, B): return L.f2.mat_mul(A, B)


@op("f2.add")
def _(L, A, B): return L.f2.add(A, B)


# --------------------------------------------------------------------------- lin
@op("lin.to")
def _(L, name, idx): return getattr(L.li, "to_" + name)(idx)


@op("lin.from")
def _(L, name, r): return getattr(L.li, "from_" + name)(r)


@op("lin.choose2_from")
def _(L, n, i, j): return L.li.linear_index_from_n_choose_2(n, i, j)


@op("lin.choose2_to")
def _(L, n, i): return L.li.linear_index_to_n_choose2_to(n, i)


FAMILIES = sorted({s.family for s in OPS.values()})
