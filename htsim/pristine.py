"""The PRISTINE IMAGE: pinned environment, numpy + every qiskit module the library imports loaded,
no module named htstabilizer* loaded, no qiskit function ever executed in this process (so there
is no Rust thread pool at fork time). Run children and oracle children are forks of it."""
import os
import sys

PIN_ENV = {
    "RAYON_NUM_THREADS": "1", "OMP_NUM_THREADS": "1", "OPENBLAS_NUM_THREADS": "1", "MKL_NUM_THREADS": "1",
    "QISKIT_PARALLEL": "FALSE", "QISKIT_IN_PARALLEL": "TRUE",
}

LIB = "htstabilizer"


def src_dir():
    return os.path.realpath(os.environ.get("HTSIM_SRC", "/repo/src"))


def setup():
    for k, v in PIN_ENV.items():
        os.environ[k] = v
    src = src_dir()
    if not os.path.isdir(os.path.join(src, LIB)):
        raise SystemExit(f"HARNESS-ERROR: no {LIB} package under {src}")
    # working tree first on the path: the checks rebuild nothing, they import /repo/src directly
    sys.path[:] = [p for p in sys.path if os.path.realpath(p or ".") != src]
    sys.path.insert(0, src)
    import numpy  # noqa: F401
    import qiskit  # noqa: F401
    import qiskit.circuit  # noqa: F401
    import qiskit.circuit.library  # noqa: F401
    import qiskit.circuit.library.standard_gates  # noqa: F401
    import qiskit.quantum_info  # noqa: F401
    import qiskit.result  # noqa: F401
    import qiskit.transpiler  # noqa: F401
    import qiskit.transpiler.passes  # noqa: F401
    # warnings a library call emits are not a result: they are not printed (the FILTERS are left alone: a change that
    # leaks warnings.simplefilter("error") must still turn later warnings into exceptions, which the oracle then sees)
    import warnings
    warnings.showwarning = lambda *a, **k: None
    assert_pristine()
    # byte-code of the tree under test goes to a scratch directory owned by this invocation (set only
    # now, after the third-party imports, so that their own caches keep being used)
    pyc = os.environ.get("HTSIM_PYC")
    if pyc:
        sys.pycache_prefix = pyc
    else:
        sys.dont_write_bytecode = True


def assert_pristine():
    bad = [m for m in sys.modules if m == LIB or m.startswith(LIB + ".")]
    if bad:
        raise SystemExit(f"HARNESS-ERROR: pristine image already contains {bad[:3]}")


def import_library_checked():
    """Called in children only. Imports the real package and checks it is the tree under test."""
    import importlib
    pkg = importlib.import_module(LIB)
    f = os.path.realpath(pkg.__file__)
    if not f.startswith(src_dir() + os.sep):
        raise SystemExit(f"HARNESS-ERROR: {LIB} imported from {f}, expected under {src_dir()}")
    return pkg
