"""Delta debugging over step lists, aware of `ref` identity (DESIGN 2.12)."""
import copy


def refs_of(st):
    out = []
    k = st["kind"]
    if k == "call":
        for A in st.get("args", []):
            if "ref" in A:
                out.append(A["ref"])
        for _, A in st.get("kw", []):
            if "ref" in A:
                out.append(A["ref"])
    elif k == "mutate":
        out.append(st["target"]["ref"])
    elif k == "drop":
        out.append(st["ref"])
    return out


def repair(steps, lits, literalise):
    """Make a candidate step list self-contained: a step whose referenced producer is gone is dropped,
    or (call arguments only, when `literalise`) the reference is replaced by the literal of the value
    recorded at call time - which keeps the value but severs the identity."""
    out = []
    have = set()
    for st in steps:
        st = copy.deepcopy(st)
        ok = True
        if st["kind"] == "call":
            n = 0
            for A in st.get("args", []) + [a for _, a in st.get("kw", [])]:
                if "ref" in A and A["ref"] not in have:
                    c = lits.get((st["id"], n))
                    if literalise and c is not None:
                        A.clear()
                        A["lit"] = c
                    else:
                        ok = False
                n += 1
        else:
            for r in refs_of(st):
                if r not in have:
                    ok = False
        if not ok:
            continue
        out.append(st)
        if st["kind"] in ("call", "lit"):
            have.add(st["id"])
        # an arm_* step directly followed by nothing is useless but harmless
    return out


def ddmin(steps, fails, lits, budget=250):
    """Classic ddmin. fails(candidate)->bool. Returns (minimised steps, number of test runs)."""
    tests = [0]

    def test(cand):
        if tests[0] >= budget:
            return False
        tests[0] += 1
        return fails(cand)

    cur = steps
    n = 2
    while len(cur) >= 2:
        chunk = max(1, len(cur) // n)
        subsets = [cur[i:i + chunk] for i in range(0, len(cur), chunk)]
        reduced = False
        # try complements first (dropping one chunk), both repair styles
        for i in range(len(subsets)):
            comp = [s for j, sub in enumerate(subsets) if j != i for s in sub]
            for lit in (False, True):
                cand = repair(comp, lits, lit)
                if len(cand) < len(cur) and test(cand):
                    cur = cand
                    n = max(n - 1, 2)
                    reduced = True
                    break
            if reduced:
                break
        if not reduced:
            if n >= len(cur):
                break
            n = min(len(cur), n * 2)
        if tests[0] >= budget:
            break
    # final single-step elimination pass
    i = 0
    while i < len(cur) and tests[0] < budget:
        comp = cur[:i] + cur[i + 1:]
        done = False
        for lit in (False, True):
            cand = repair(comp, lits, lit)
            if len(cand) < len(cur) and test(cand):
                cur = cand
                done = True
                break
        if not done:
            i += 1
    return cur, tests[0]


def simplify(steps, fails, budget=60):
    """Prefer simpler steps while the same violation class persists: remove unfired/unneeded arms,
    replace mutations by `clear`, drop keyword styles."""
    tests = 0
    cur = steps
    for i, st in enumerate(list(cur)):
        if tests >= budget:
            break
        if st["kind"] == "mutate" and st["mut"] not in ("clear",):
            cand = copy.deepcopy(cur)
            cand[i]["mut"] = "clear"
            cand[i]["params"] = {}
            tests += 1
            if fails(cand):
                cur = cand
    return cur, tests
