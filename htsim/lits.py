"""Literal builders: canonical forms of caller-owned values, produced from plain data by harness code
that does NOT import the library (DESIGN 2.5). ~GF(2) helpers for valid stabilizer presentations."""

SQ_CLIFFORDS = [(1, 0, 0, 1), (0, 1, 1, 0), (1, 0, 1, 1), (1, 1, 1, 0), (0, 1, 1, 1), (1, 1, 0, 1)]


# --------------------------------------------------------------------------- canonical literals

def nd(rows, dtype="int8"):
    if rows and isinstance(rows[0], (list, tuple)):
        sh = [len(rows), len(rows[0])]
        flat = [int(x) for r in rows for x in r]
    else:
        sh = [len(rows)]
        flat = [int(x) for x in rows]
    return {"t": "nd", "dt": dtype, "sh": sh, "v": flat}


def ndf(rows):
    """float64 array literal (entries 0.0 / 1.0)"""
    sh = [len(rows), len(rows[0])] if rows and isinstance(rows[0], (list, tuple)) else [len(rows)]
    flat = [x for r in rows for x in r] if len(sh) == 2 else list(rows)
    return {"t": "nd", "dt": "float64", "sh": sh, "v": [repr(float(x)) for x in flat]}


def ndx(rows, dt):
    """array literal of an unusual dtype: float32 / float16 (entries 0.0 / 1.0) or complex (entries 0j / (1+0j))"""
    sh = [len(rows), len(rows[0])] if rows and isinstance(rows[0], (list, tuple)) else [len(rows)]
    flat = [x for r in rows for x in r] if len(sh) == 2 else list(rows)
    if dt.startswith("complex"):
        return {"t": "nd", "dt": dt, "sh": sh, "v": [repr(complex(x)) for x in flat]}
    return {"t": "nd", "dt": dt, "sh": sh, "v": [repr(float(x)) for x in flat]}


def npint(x, dt="int64"):
    return {"t": "nps", "dt": dt, "r": str(int(x))}


def lst(items):
    return {"t": "list", "v": list(items)}


def tup(items):
    return {"t": "tuple", "v": list(items)}


def dct(pairs):
    return {"t": "dict", "v": [[k, v] for k, v in pairs]}


def flt(x):
    return {"t": "float", "r": repr(float(x))}


def qc(n, ops, cregs=(), md=None, qregs=None):
    """ops: [(name, [qubits])] or [(name,[qubits],[clbits])] or [(name,[qubits],[clbits],[float params])]"""
    o = []
    for g in ops:
        name, qs = g[0], list(g[1])
        cs = list(g[2]) if len(g) > 2 else []
        ps = [flt(x) for x in g[3]] if len(g) > 3 else []
        entry = [name, ps, qs, cs]
        if len(g) > 4:
            entry.append(g[4])        # canonical form of the definition of a composite gate
        o.append(entry)
    return {"t": "qc", "nq": n, "nc": sum(s for _, s in cregs),
            "qregs": [list(x) for x in (qregs or [["q", n]])],
            "cregs": [list(x) for x in cregs], "gp": flt(0.0), "ops": o,
            "md": md if md is not None else dct([])}


def stabilizer_obj(R, S, ph):
    n = len(R)
    return {"t": "obj", "c": "htstabilizer.stabilizer:Stabilizer",
            "a": [["R", nd(R)], ["S", nd(S)], ["num_qubits", n], ["phases", nd(ph)]]}


def graph_obj(adj):
    n = len(adj)
    return {"t": "obj", "c": "htstabilizer.graph:Graph",
            "a": [["adjacency_matrix", nd(adj)], ["num_vertices", n]]}


def fake_result(counts):
    """counts: dict bitstring->int, or list of such dicts"""
    def one(d):
        return dct([(k, v) for k, v in d.items()])
    if isinstance(counts, list):
        return {"t": "fake", "counts": lst([one(d) for d in counts])}
    return {"t": "fake", "counts": one(counts)}


# --------------------------------------------------------------------------- GF(2) helpers

def zeros(n, m=None):
    return [[0] * (m if m is not None else n) for _ in range(n)]


def random_adj(rng, n, p):
    a = zeros(n)
    for i in range(n):
        for j in range(i + 1, n):
            if rng.random() < p:
                a[i][j] = a[j][i] = 1
    return a


def adj_from_edges(n, edges):
    a = zeros(n)
    for i, j in edges:
        a[i][j] = a[j][i] = 1
    return a


def random_invertible(rng, n):
    m = [[int(i == j) for j in range(n)] for i in range(n)]
    for _ in range(3 * n):
        i, j = rng.randrange(n), rng.randrange(n)
        if i != j:
            if rng.random() < 0.3:
                m[i], m[j] = m[j], m[i]
            else:
                m[i] = [a ^ b for a, b in zip(m[i], m[j])]
    return m


def matmul(a, b):
    n, k, m = len(a), len(b), len(b[0])
    return [[sum(a[i][t] & b[t][j] for t in range(k)) & 1 for j in range(m)] for i in range(n)]


def graph_state_mats(adj):
    n = len(adj)
    return [[int(i == j) for j in range(n)] for i in range(n)], [row[:] for row in adj]


def apply_local_cliffords(R, S, cl):
    """Row q of R/S holds the x/z bits of qubit q for each generator (column)."""
    n = len(R)
    R2, S2 = zeros(n), zeros(n)
    for q in range(n):
        a, b, c, d = SQ_CLIFFORDS[cl[q]]
        for g in range(n):
            x, z = R[q][g], S[q][g]
            R2[q][g] = (a & x) ^ (b & z)
            S2[q][g] = (c & x) ^ (d & z)
    return R2, S2


def change_generators(R, S, M):
    return matmul(R, M), matmul(S, M)


def random_group(rng, n, p=None):
    """A valid stabilizer (R, S) for n qubits: random graph state, random local Cliffords."""
    if p is None:
        p = rng.choice([0.0, 0.25, 0.5, 0.8, 1.0])
    R, S = graph_state_mats(random_adj(rng, n, p))
    return apply_local_cliffords(R, S, [rng.randrange(6) for _ in range(n)])


def present(rng, R, S):
    """Another presentation of the same group (mod signs): new generators, random signs."""
    n = len(R)
    R2, S2 = change_generators(R, S, random_invertible(rng, n))
    return R2, S2, [rng.randrange(2) for _ in range(n)]


def pauli_strings(R, S, ph, sign_style=0):
    n = len(R)
    out = []
    for g in range(n):
        s = "".join("IXZY"[R[q][g] + 2 * S[q][g]] for q in range(n))
        if ph[g]:
            s = "-" + s
        elif sign_style == 1:
            s = "+" + s
        out.append(s)
    return out


HALF_PI = 1.5707963267948966


def random_clifford_ops(rng, n, length, non_clifford=False, extended=False):
    """extended: also Clifford gates outside the documented list that the library nevertheless accepts -
    sx, sxdg, cy and the parameterised rz / p at multiples of pi/2"""
    ops = []
    one = ["h", "s", "sdg", "x", "y", "z", "id"]
    two = ["cx", "cz", "swap"]
    for _ in range(length):
        if extended and rng.random() < 0.3:
            q = rng.randrange(n)
            g = rng.choice(["rz", "p", "sx", "sxdg", "cy"])
            if g in ("rz", "p"):
                ops.append((g, [q], [], [HALF_PI * rng.randrange(4)]))
            elif g == "cy" and n >= 2:
                a, b = rng.sample(range(n), 2)
                ops.append((g, [a, b]))
            elif g != "cy":
                ops.append((g, [q]))
            continue
        if n >= 2 and rng.random() < 0.4:
            a, b = rng.sample(range(n), 2)
            ops.append((rng.choice(two), [a, b]))
        else:
            ops.append((rng.choice(one), [rng.randrange(n)]))
    if extended and rng.random() < 0.6:
        # a parameterised gate where its parameter matters: on a qubit that has just been put into |+>
        q = rng.randrange(n)
        ops[0:0] = [("h", [q]), (rng.choice(["rz", "p"]), [q], [], [HALF_PI * rng.randrange(4)])]
    if non_clifford:
        ops.insert(rng.randrange(len(ops) + 1), ("t", [rng.randrange(n)]))
    return ops
