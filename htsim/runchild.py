"""Body of a run child: executes ONE history (generated online from one seed, or replayed from a step
list) and returns a JSON report with the event log."""
import hashlib
import json

from . import canon as C
from .executor import Executor
from .generator import Generator

MAX_STEPS = 120
MAX_STEPS_HAMMER = 420     # K8: up to 150 repeats, each followed by a drop, plus the re-ask rounds


def child_main(job, ask):
    mode = job["mode"]
    if mode == "audit":
        from .ops import audit
        return {"audit": audit(), "stats": {}, "violations": []}
    ex = Executor(oracle=ask, alias_guidance=job.get("alias_guidance", True),
                  count_lines=job.get("count_lines", False), record_args=job.get("record_args", False))
    steps = []
    cfg = None
    gen_error = None
    if mode == "generate":
        gen = Generator(job["seed"], job["batch"], job.get("tier", "quick"), job)
        cfg = gen.describe_config()
        while len(steps) < (MAX_STEPS_HAMMER if job["batch"] in ("K8", "K9") else MAX_STEPS):
            try:
                st = gen.next(ex)
            except Exception:
                # a bug in the workload generator ends this history early; everything executed so far has been
                # judged in full, so nothing is lost but the rest of this run. Counted and shown in the evidence.
                import traceback
                gen_error = traceback.format_exc()[-1500:]
                break
            if st is None:
                break
            if gen.cfg.get("dt"):
                st["dt"] = gen.draw_dt()
            steps.append(st)
            ex.step(st)
    elif mode == "replay":
        for st in job["steps"]:
            steps.append(st)
            ex.step(st)
            if job.get("stop_on_violation") and ex.violations:
                break
    else:
        raise ValueError(mode)

    log = [json.dumps(e, separators=(",", ":"), sort_keys=True) for e in ex.events]
    hist = hashlib.sha256(json.dumps(steps, separators=(",", ":"), sort_keys=True).encode()).hexdigest()[:20]
    logd = hashlib.sha256("\n".join(log).encode()).hexdigest()[:20]
    judged_after = ex.stats.get("judged_after_adversarial_event", 0)
    cold_then_warm = _cold_and_warm(ex.events)
    report = {
        "generator_error": gen_error,
        "script_note": getattr(gen, "script_note", None) if mode == "generate" else None,
        "seed": job.get("seed"), "batch": job.get("batch"), "config": cfg,
        "steps": steps, "events": ex.events if job.get("want_events", True) else None,
        "history_digest": hist, "log_digest": logd,
        "violations": ex.violations,
        "stats": ex.stats,
        "states": sorted({hashlib.sha256(repr(s).encode()).hexdigest()[:12] for s in ex.states}),
        "transitions": sorted({hashlib.sha256(repr(t).encode()).hexdigest()[:12] for t in ex.transitions}),
        "intr_sites": sorted([list(s) for s in ex.intr_sites]),
        "nontrivial": bool(judged_after > 0 or cold_then_warm),
        "opaque": C.STATS["opaque"],
        "sim_time": ex.clock.now - ex.clock.T0, "clock_reads_by_library": ex.clock.reads_by_library,
        "warm": sorted(ex.warm),
    }
    return report


def _cold_and_warm(events):
    """a plain history is non-trivial if some cache key is asked both cold and warm"""
    seen = {}
    for e in events:
        if e.get("kind") == "call" and e.get("judged") and e.get("key"):
            cold = any(w == "served" for _, w in e.get("reads", []))
            s = seen.setdefault(e["key"], set())
            s.add("cold" if cold else "warm")
            if len(s) == 2:
                return True
    return False
