"""htsim - deterministic history simulator with fault injection for htstabilizer (see /verif/DESIGN.md)."""
