"""Canonical forms: the meaning of "equal" for the C13 oracle, and the codec for literals.

canon(obj)   -> JSON-able value, lossless w.r.t. everything the library can observe through
               public attributes, blind to process-identity artefacts (circuit .name, strides).
rebuild(c)   -> a fresh object with that canonical form (for every type that can be an argument).

This module never imports htstabilizer at import time (the pristine image must not contain it);
library classes are resolved by name at call time.
"""
import enum
import hashlib
import importlib
import json
import re

import numpy as np

LIB = "htstabilizer"
MAX_DEPTH = 14
BIG_ARRAY = 20000

STATS = {"opaque": 0, "unrebuildable": 0}


class Unrebuildable(Exception):
    pass


# --------------------------------------------------------------------------- helpers

def _is_lib_obj(obj):
    m = type(obj).__module__ or ""
    return m == LIB or m.startswith(LIB + ".")


def _clsname(cls):
    return f"{cls.__module__}:{cls.__qualname__}"


def _resolve(path):
    mod, qual = path.split(":")
    o = importlib.import_module(mod)
    for part in qual.split("."):
        o = getattr(o, part)
    return o


_SCRUB = [(re.compile(r"0x[0-9a-fA-F]+"), "0x?"), (re.compile(r"circuit-\d+"), "circuit-?")]


def scrub(s):
    for rx, rep in _SCRUB:
        s = rx.sub(rep, s)
    return s


def lib_attrs(obj):
    """Public state of a library object: (name, value) pairs sorted by name."""
    names = []
    d = getattr(obj, "__dict__", None)
    if d is not None:
        names.extend(d.keys())
    for klass in type(obj).__mro__:
        sl = klass.__dict__.get("__slots__")
        if sl is None:
            continue
        if isinstance(sl, str):
            sl = (sl,)
        for s in sl:
            if s not in ("__dict__", "__weakref__") and s not in names:
                names.append(s)
    out = []
    for n in sorted(names):
        if n.startswith("_"):
            continue  # private state is not part of an object's value (and not reachable by the caller catalogue)
        try:
            out.append((n, getattr(obj, n)))
        except AttributeError:
            pass  # unset slot
    return out


# --------------------------------------------------------------------------- canon

def canon(obj, depth=0):
    if depth > MAX_DEPTH:
        STATS["opaque"] += 1
        return {"t": "opaque", "c": "too-deep"}
    if obj is None or isinstance(obj, (bool, str)):
        return obj
    if isinstance(obj, enum.Enum):
        v = obj.value
        return {"t": "enum", "c": _clsname(type(obj)), "v": v if isinstance(v, (int, str)) else repr(v)}
    if isinstance(obj, int):
        return obj
    if isinstance(obj, float):
        return {"t": "float", "r": repr(obj)}
    if isinstance(obj, complex):
        return {"t": "complex", "r": repr(obj)}
    if isinstance(obj, np.generic):
        return {"t": "nps", "dt": str(obj.dtype), "r": _scalar_repr(obj)}
    if isinstance(obj, np.ndarray):
        return _canon_nd(obj)
    if isinstance(obj, list):
        return {"t": "list", "v": [canon(x, depth + 1) for x in obj]}
    if isinstance(obj, tuple):
        return {"t": "tuple", "v": [canon(x, depth + 1) for x in obj]}
    if isinstance(obj, dict):
        return {"t": "dict", "v": [[canon(k, depth + 1), canon(v, depth + 1)] for k, v in obj.items()]}
    if isinstance(obj, (set, frozenset)):
        items = sorted((canon(x, depth + 1) for x in obj), key=cjson)
        return {"t": "set", "v": items}
    if isinstance(obj, range):
        return {"t": "range", "v": [obj.start, obj.stop, obj.step]}
    if isinstance(obj, BaseException):
        return {"t": "exc", "c": _clsname(type(obj)), "m": scrub(str(obj))}
    tn = type(obj).__module__ + "." + type(obj).__name__
    if _is_qc(obj):
        return _canon_qc(obj, depth)
    if tn.startswith("qiskit.quantum_info") and type(obj).__name__ == "Pauli":
        return {"t": "Pauli", "l": obj.to_label()}
    if type(obj).__name__ == "FakeResult" and type(obj).__module__.startswith("htsim"):
        return {"t": "fake", "counts": canon(obj.counts, depth + 1)}
    if _is_lib_obj(obj):
        return {"t": "obj", "c": _clsname(type(obj)),
                "a": [[n, canon(v, depth + 1)] for n, v in lib_attrs(obj)]}
    STATS["opaque"] += 1
    return {"t": "opaque", "c": tn}


def _is_qc(obj):
    for k in type(obj).__mro__:
        if k.__name__ == "QuantumCircuit" and k.__module__.startswith("qiskit"):
            return True
    return False


def _scalar_repr(x):
    k = x.dtype.kind
    if k in "iu":
        return str(int(x))
    if k == "b":
        return str(int(bool(x)))
    if k == "f":
        return repr(float(x))
    if k == "c":
        return repr(complex(x))
    return repr(x)


def _canon_nd(a):
    k = a.dtype.kind
    out = {"t": "nd", "dt": str(a.dtype), "sh": list(a.shape)}
    if k not in "iubfc":
        if k == "O":
            out["v"] = [canon(x, 2) for x in a.ravel().tolist()]
            return out
        STATS["opaque"] += 1
        out["v"] = repr(a.tolist())
        return out
    if a.size > BIG_ARRAY:
        out["h"] = hashlib.sha256(np.ascontiguousarray(a).tobytes()).hexdigest()[:24]
        return out
    flat = a.ravel()
    if k in "iu":
        out["v"] = [int(x) for x in flat.tolist()]
    elif k == "b":
        out["v"] = [int(x) for x in flat.tolist()]
    elif k == "f":
        out["v"] = [repr(float(x)) for x in flat.tolist()]
    else:
        out["v"] = [repr(complex(x)) for x in flat.tolist()]
    return out


def _canon_param(p):
    if isinstance(p, (int, float, complex, np.generic)):
        return canon(p)
    if isinstance(p, np.ndarray):
        return _canon_nd(p)
    return {"t": "param", "r": scrub(str(p))}


_AUTO_REG = re.compile(r"^(meas|c|q|ancilla|cr|qr)(_auto)?(\d+)$")


def _norm_regs(regs):
    """Register names that qiskit generated from its process-wide instance counter (`meas0`, `c3`, `q7`:
    e.g. measure_all() on a circuit that already has a `meas` register) are identity artefacts exactly like
    QuantumCircuit.name: they are replaced by position-based placeholders."""
    out = []
    for pos, r in enumerate(regs):
        m = _AUTO_REG.match(r.name)
        out.append([f"{m.group(1)}_auto{pos}" if m else r.name, r.size])
    return out


def _canon_qc(qc, depth):
    ops = []
    find = qc.find_bit
    for inst in qc.data:
        op = inst.operation
        entry = [op.name,
                 [_canon_param(p) for p in op.params],
                 [find(q).index for q in inst.qubits],
                 [find(c).index for c in inst.clbits]]
        if not _is_standard(op.name):
            # a composite (user-defined) gate: its NAME does not determine its meaning, its definition does
            d = getattr(op, "definition", None)
            if d is not None and _is_qc(d) and depth < MAX_DEPTH - 2:
                entry.append(_canon_qc(d, depth + 1))
        ops.append(entry)
    return {"t": "qc",
            "nq": qc.num_qubits, "nc": qc.num_clbits,
            "qregs": _norm_regs(qc.qregs),
            "cregs": _norm_regs(qc.cregs),
            "gp": _canon_param(qc.global_phase),
            "ops": ops,
            "md": canon(qc.metadata, depth + 1)}


# --------------------------------------------------------------------------- rebuild

_GATES = None


def _std():
    global _GATES
    if _GATES is None:
        from qiskit.circuit.library.standard_gates import get_standard_gate_name_mapping
        _GATES = get_standard_gate_name_mapping()
    return _GATES


def _is_standard(name):
    return name == "barrier" or name in _std()


def _gate(name, params, nq, definition=None):
    from qiskit.circuit import Barrier
    _std()
    if name == "barrier":
        return Barrier(nq)
    if definition is not None:
        sub = _rebuild_qc(definition)
        if sub.num_clbits or params:
            raise Unrebuildable("composite instruction with clbits / params")
        g = sub.to_gate()
        g.name = name
        return g
    g = _GATES.get(name)
    if g is None:
        raise Unrebuildable(f"gate {name}")
    if not params:
        if g.params:
            raise Unrebuildable(f"gate {name} needs params")
        return g
    return g.base_class(*params)


def rebuild(c):
    if c is None or isinstance(c, (bool, str, int)):
        return c
    if not isinstance(c, dict):
        raise Unrebuildable(f"bad canon {type(c)}")
    t = c.get("t")
    if t == "float":
        return float(c["r"])
    if t == "complex":
        return complex(c["r"])
    if t == "nps":
        dt = np.dtype(c["dt"])
        k = dt.kind
        if k in "iu":
            return dt.type(int(c["r"]))
        if k == "b":
            return dt.type(bool(int(c["r"])))
        if k == "f":
            return dt.type(float(c["r"]))
        if k == "c":
            return dt.type(complex(c["r"]))
        raise Unrebuildable("nps " + c["dt"])
    if t == "nd":
        return _rebuild_nd(c)
    if t == "list":
        return [rebuild(x) for x in c["v"]]
    if t == "tuple":
        return tuple(rebuild(x) for x in c["v"])
    if t == "dict":
        return {_hashable(rebuild(k)): rebuild(v) for k, v in c["v"]}
    if t == "set":
        return {_hashable(rebuild(x)) for x in c["v"]}
    if t == "range":
        return range(*c["v"])
    if t == "enum":
        return _resolve(c["c"])(c["v"])
    if t == "exc":
        try:
            return _resolve(c["c"])(c["m"])
        except Exception as e:  # noqa
            raise Unrebuildable("exc " + c["c"])
    if t == "Pauli":
        from qiskit.quantum_info import Pauli
        return Pauli(c["l"])
    if t == "fake":
        from .fakes import FakeResult
        return FakeResult(rebuild(c["counts"]))
    if t == "qc":
        return _rebuild_qc(c)
    if t == "obj":
        cls = _resolve(c["c"])
        attrs = [(n, rebuild(v)) for n, v in c["a"]]
        o = _default_instance(cls, dict(attrs))
        for n, v in attrs:
            object.__setattr__(o, n, v)
        return o
    STATS["unrebuildable"] += 1
    raise Unrebuildable(str(t))


def _default_instance(cls, a):
    """An instance whose PRIVATE state is what the class's own constructor gives a new object (so that
    a library object rebuilt from its public value is exactly 'that value in a fresh interpreter');
    its public attributes are overwritten by the caller afterwards. Constructors are tried with the
    object's own public values first (robust against constructors that validate), then with dummies;
    `__new__` is the last resort."""
    name = cls.__name__
    for attempt in ("values", "dummies"):
        try:
            v = attempt == "values"
            if name == "Stabilizer":
                if v:
                    return cls((a["R"], a["S"], a["phases"]))
                z = np.zeros((1, 1), dtype=np.int8)
                return cls((z, z.copy()))
            if name == "Graph":
                return cls(a["adjacency_matrix"]) if v else cls(1)
            if name == "StabilizerCircuitInfo":
                if v:
                    return cls(a["num_qubits"], f"{int(a['graph_id'])}:{int(a['cost'])}:{int(a['depth'])}:{a['circuit_string']}")
                return cls(0, "0:0:0:")
            if name == "MUBInfo":
                if v:
                    return cls(a["num_qubits"], [f"{int(a['total_cost'])}:{int(a['max_cost'])}:{int(a['max_depth'])}"])
                return cls(0, ["0:0:0"])
            if name == "ReadoutInfo":
                return cls(a["circuit"], a["total_num_qubits"], a["qubits"]) if v else cls(None, 0, None)
            if name == "StabilizerMeasurementFitter":
                from qiskit import QuantumCircuit
                qc = QuantumCircuit(1)
                qc.metadata = {"readout info": a.get("readout_info")}
                return cls(a.get("result"), qc, a.get("result_index", 0))
            if name == "FullStateTomographyFitter":
                return cls(a.get("result"), a.get("circuits") if v else [])
            if name == "CircuitResult":
                return cls({}, None)
            if name == "BinaryResult":
                return cls(a["bitstring"], a["count"]) if v else cls(0, 0)
            if name == "NTuple":
                return cls(list(a["data"])) if v else cls([])
            if name == "Repr":
                return cls()
            if name.startswith("LCClass") and name != "LCClassBase":
                return cls(a["type"], a["data"]) if v else cls(0)
            break
        except Exception:
            continue
    return cls.__new__(cls)


def _hashable(x):
    try:
        hash(x)
    except TypeError:
        raise Unrebuildable("unhashable key")
    return x


def _rebuild_nd(c):
    if "h" in c:
        raise Unrebuildable("big array")
    dt = np.dtype(c["dt"])
    k = dt.kind
    v = c["v"]
    if k in "iu":
        a = np.array(v, dtype=np.int64 if k == "i" else np.uint64).astype(dt) if v else np.zeros(0, dtype=dt)
    elif k == "b":
        a = np.array([bool(x) for x in v], dtype=dt)
    elif k == "f":
        a = np.array([float(x) for x in v], dtype=dt)
    elif k == "c":
        a = np.array([complex(x) for x in v], dtype=dt)
    elif k == "O":
        a = np.empty(len(v), dtype=object)
        for i, x in enumerate(v):
            a[i] = rebuild(x)
    else:
        raise Unrebuildable("nd " + c["dt"])
    return a.reshape(c["sh"])


def _rebuild_param(p):
    if isinstance(p, dict) and p.get("t") == "param":
        raise Unrebuildable("symbolic param")
    return rebuild(p)


def _rebuild_qc(c):
    from qiskit import QuantumCircuit, QuantumRegister, ClassicalRegister
    qregs = [QuantumRegister(sz, nm) for nm, sz in c["qregs"]]
    cregs = [ClassicalRegister(sz, nm) for nm, sz in c["cregs"]]
    if sum(r.size for r in qregs) != c["nq"] or sum(r.size for r in cregs) != c["nc"]:
        raise Unrebuildable("loose or shared bits")
    try:
        qc = QuantumCircuit(*qregs, *cregs)
    except Exception:
        raise Unrebuildable("registers")
    qc.global_phase = _rebuild_param(c["gp"])   # always through the setter: preserves -0.0 as well
    nq = c["nq"]
    for entry in c["ops"]:
        name, params, qs, cs = entry[:4]
        g = _gate(name, [_rebuild_param(p) for p in params], len(qs), entry[4] if len(entry) > 4 else None)
        qc.append(g, qs, cs)
    md = rebuild(c["md"])
    if isinstance(md, dict):
        qc.metadata = md
    elif md is not None:
        raise Unrebuildable("metadata type")
    return qc


# --------------------------------------------------------------------------- json / digests

def cjson(c):
    return json.dumps(c, separators=(",", ":"), ensure_ascii=True)


def digest(c):
    return hashlib.sha256(cjson(c).encode()).hexdigest()[:20]


def type_tag(c):
    """Short type tag of a canonical value (used by the generator's typed slot index)."""
    if c is None:
        return "none"
    if isinstance(c, bool):
        return "bool"
    if isinstance(c, int):
        return "int"
    if isinstance(c, str):
        return "str"
    t = c.get("t")
    if t == "obj":
        return c["c"].split(":")[1]
    if t == "exc":
        return "exc"
    if t == "list":
        v = c["v"]
        if v and all(isinstance(x, dict) and x.get("t") == "qc" for x in v):
            return "list[qc]"
        if v and all(isinstance(x, dict) and x.get("t") == "nd" for x in v):
            return "list[nd]"
        if v and all(isinstance(x, dict) and x.get("t") == "list" for x in v):
            return "list[list]"
        return "list"
    return t
