"""Seeded, online, swarm-configured history generator - the adversarial caller (DESIGN 2.4-2.6, 2.10).

One `random.Random(run_seed)` decides everything. The generator sees only deterministic facts the
executor has produced so far (slot types, shape hints, alias flags, warm table files)."""
import random

from . import lits as Lt
from .executor import canon_at

VALID = {
    2: ["all"],
    3: ["all", "linear"],
    4: ["all", "linear", "star", "cycle"],
    5: ["all", "linear", "star", "cycle", "T", "Q"],
    6: ["all", "linear", "star", "ladder", "E", "H", "Q"],
}
INVALID_CONNS = ["allx", "ring", "", "LINEAR", "cycle", "T", "ladder", "star", "H"]
NCLASSES = {2: 2, 3: 5, 4: 18, 5: 93, 6: 760}
CORE = ["prep", "mub", "lookup", "tomo"]
AUX = ["conn", "stab", "graph", "lc", "layer", "rot", "f2", "lin"]
LIN_NAMES = {"0": 1, "12": 3, "13": 4, "14": 5, "15": 6, "22": 3, "112": 6, "23": 10, "122": 15, "123": 60,
             "33": 10, "24": 15, "222": 15, "1122": 45, "1113": 20, "1122s": 90}

BATCH_RATES = {
    #        mutate drop  invalid read  intr
    "K0": (0.00, 0.04, 0.00, 0.00, 0.00),
    "K1": (0.28, 0.05, 0.10, 0.00, 0.00),
    "K2": (0.18, 0.04, 0.06, 0.16, 0.00),
    "K3": (0.18, 0.04, 0.06, 0.00, 0.16),
    "K4": (0.20, 0.05, 0.08, 0.08, 0.08),
    "K5": (0.28, 0.05, 0.03, 0.00, 0.00),   # scripted: one op of the alphabet - produce; disturb; re-ask
    "K6": (0.10, 0.00, 0.00, 0.00, 0.00),   # scripted: one table, one fault at a chosen point, then re-ask
    "K7": (0.00, 0.00, 0.00, 0.00, 0.00),   # scripted: tour over many tables with re-visits (cache capacity / key mix-ups)
    "K9": (0.00, 0.00, 0.00, 0.00, 0.00),   # scripted: entry sweep of one stabilizer table after other tables were loaded
    "K8": (0.20, 0.00, 0.00, 0.00, 0.00),   # scripted: one op hammered 20-150 times (same request / many requests), then re-ask
}
SCRIPTED = ("K5", "K6", "K7", "K8", "K9")


def splitmix64(*parts):
    x = 0x9E3779B97F4A7C15
    for p in parts:
        if isinstance(p, str):
            p = int.from_bytes(p.encode(), "little") & 0xFFFFFFFFFFFFFFFF
        x = (x + (p & 0xFFFFFFFFFFFFFFFF) + 0x9E3779B97F4A7C15) & 0xFFFFFFFFFFFFFFFF
        z = x
        z = ((z ^ (z >> 30)) * 0xBF58476D1CE4E5B9) & 0xFFFFFFFFFFFFFFFF
        z = ((z ^ (z >> 27)) * 0x94D049BB133111EB) & 0xFFFFFFFFFFFFFFFF
        x = z ^ (z >> 31)
    return x


# ops whose recipe needs a live object of a particular kind: what to call first (K5 templates)
PREREQ = {
    "tomo.BinaryResult.str": ["tomo.BinaryResult"], "tomo.BinaryResult.eq": ["tomo.BinaryResult"],
    "tomo.CircuitResult.str": ["tomo.CircuitResult"],
    "tomo.SMF.new": ["tomo.stabilizer_measurement_circuit"], "tomo.SMF.expectation_values": ["tomo.stabilizer_measurement_circuit"],
    "tomo.SMF.density_matrix": ["tomo.stabilizer_measurement_circuit"], "tomo.smf_expectation_values": ["tomo.stabilizer_measurement_circuit"],
    "tomo.FST.new": ["tomo.full_state_tomography_circuits"], "tomo.FST.expectation_values": ["tomo.full_state_tomography_circuits"],
    "tomo.FST.density_matrix": ["tomo.full_state_tomography_circuits"], "tomo.fst_density_matrix": ["tomo.full_state_tomography_circuits"],
    "lin.NTuple.query": ["lin.NTuple"], "lin.Repr": ["lin.NTuple"], "lin.Repr.query": ["lin.NTuple", "lin.Repr"],
    "lin.Repr.add": ["lin.NTuple", "lin.Repr"],
    "lin.from": ["lin.to"],
    "lc.id": ["lc.determine_lc_class"], "lc.get_graph": ["lc.determine_lc_class"], "lc.str": ["lc.determine_lc_class"],
    "lc.eq": ["lc.determine_lc_class", "lc.new"], "lc.num_qubits": ["lc.new"],
    "lookup.info_parse_circuit": ["lookup.stabilizer_circuit_lookup"], "lookup.mubinfo_copy": ["lookup.mub_circuit_lookup"],
    "layer.to_circuit": ["layer.find_local_clifford_layer"], "layer.check_LC": ["layer.find_local_clifford_layer"],
}


def perturb_canon(c, r):
    """A NEIGHBOUR of a literal argument value: same type and shape, slightly different content (possibly an
    invalid one). None when nothing sensible can be done."""
    import copy
    if isinstance(c, bool):
        return not c
    if isinstance(c, int):
        return r.choice([c + 1, max(0, c - 1), 0])
    if isinstance(c, str):
        pool = [x for x in ["all", "linear", "star", "cycle", "T", "Q", "ladder", "E", "H", "nope"] if x != c]
        return r.choice(pool) if len(c) < 8 and c.isalpha() else c[::-1]
    if not isinstance(c, dict):
        return None
    c = copy.deepcopy(c)
    t = c.get("t")
    if t in ("list", "tuple"):
        v = c["v"]
        if not v:
            return None
        if all(isinstance(x, int) and not isinstance(x, bool) for x in v):
            how = r.randrange(3)
            if how == 0 and len(v) > 1:
                v.reverse()
            elif how == 1:
                i = r.randrange(len(v))
                v[i] = max(0, v[i] + r.choice([-1, 1]))
            else:
                v.append(v.pop(0))
            return c
        i = r.randrange(len(v))
        nv = perturb_canon(v[i], r)
        if nv is None:
            return None
        v[i] = nv
        return c
    if t == "dict":
        items = c["v"]
        if items and all(isinstance(k, str) for k, _ in items):
            if r.random() < 0.6:      # a malformed outcome key, never in first position
                nb = len(items[0][0])
                bad = r.choice(["0x" + "1" * max(0, nb - 2), "2" * max(1, nb), "ab"])
                items.insert(r.randint(1, len(items)), [bad, 7])
            else:
                i = r.randrange(len(items))
                items[i][1] = perturb_canon(items[i][1], r) if isinstance(items[i][1], int) else items[i][1]
            return c
        return None
    if t == "fake":
        nv = perturb_canon(c["counts"], r)
        if nv is None:
            return None
        c["counts"] = nv
        return c
    if t == "qc":
        ops = c["ops"]
        comp = [o for o in ops if len(o) > 4]
        if comp and r.random() < 0.85:        # same gate names on the same qubits, another DEFINITION of a composite gate
            o = r.choice(comp)
            nd_ = perturb_canon(o[4], r)
            if nd_ is not None:
                o[4] = nd_
                return c
        par = [i for i, o in enumerate(ops) if o[1]]
        if par and r.random() < 0.85:         # same gate sequence, another parameter value
            o = ops[r.choice(par)]
            k = round(float(o[1][0]["r"]) / Lt.HALF_PI) if isinstance(o[1][0], dict) and o[1][0].get("t") == "float" else 0
            o[1][0] = Lt.flt(Lt.HALF_PI * ((k + r.randrange(1, 4)) % 4))
            return c
        if ops and r.random() < 0.5:
            o = ops[r.randrange(len(ops))]
            if len(o[2]) == 1 and c["nq"] > 1 and not o[3]:
                o[2] = [(o[2][0] + 1) % c["nq"]]
                return c
        ops.append(["x", [], [r.randrange(max(1, c["nq"]))], []])
        return c
    if t == "nd":
        if "v" in c and c["v"] and c["dt"][0] in "iub":
            i = r.randrange(len(c["v"]))
            c["v"][i] = 1 - c["v"][i] if c["v"][i] in (0, 1) else 0
            return c
        return None
    if t == "obj":
        attrs = [a for a in c["a"] if isinstance(a[1], dict) and a[1].get("t") == "nd"]
        if attrs:
            a = r.choice(attrs)
            nv = perturb_canon(a[1], r)
            if nv is not None:
                a[1] = nv
                return c
        return None
    return None


DERIVED_ATTRS = {("Graph", "num_vertices"), ("Stabilizer", "num_qubits"), ("CircuitResult", "num_qubits")}


def meta_cls(meta, path):
    """class name of the library object at `path` inside a slot (from its recorded canonical value)"""
    c = canon_at(meta.get("canon"), path) if meta.get("canon") is not None else None
    if isinstance(c, dict) and c.get("t") == "obj":
        return c["c"].split(":")[1].split(".")[-1]
    return meta.get("tag") if not path else None


def _touches(op, kind):
    """does this op read the stabilizer / the MUB table of its (n, connectivity)?"""
    if kind == "mub":
        return op.startswith("mub.") or op in ("lookup.mub_circuit_lookup", "tomo.full_state_tomography_circuits")
    return op.startswith("prep.") or op in ("lookup.stabilizer_circuit_lookup", "tomo.stabilizer_measurement_circuit")


class Generator:
    def __init__(self, seed, batch, tier="quick", job=None):
        self.rng = random.Random(seed)
        self.batch = batch
        self.tier = tier
        self.next_id = 0
        self.queue = []
        self.emitted = 0
        self._force = None       # (n, conn) forced for the next recipe (fault aiming)
        self._force_sticky = False
        self.script_note = None
        self._job = job
        self.cfg = self._draw_config()
        if batch == "K5":
            self._script_k5(job["op"])
        elif batch == "K6":
            self._script_k6(job["table"], job["fault"])
        elif batch == "K7":
            self._script_k7()
        elif batch == "K9":
            self._script_k9(job["n"], job["conn"], job["preload"], job["ids"])
        elif batch == "K8":
            self._script_k8(job["op"], job.get("kmode", "same"))

    # ------------------------------------------------------------------ configuration (swarm)
    def _draw_config(self):
        r = self.rng
        weights = {2: 3, 3: 4, 4: 4, 5: 2, 6: 2} if self.tier == "quick" else {2: 2, 3: 3, 4: 3, 5: 3, 6: 3}
        wide = r.random() < 0.08     # many tables in one process: cache capacity / key collisions / load order
        ns = sorted(set(r.choices(list(weights), weights=list(weights.values()), k=r.choice([1, 1, 2]))))
        if wide:
            ns = sorted(r.sample([2, 3, 4, 5, 6], r.choice([3, 4, 5])))
        conns = {}
        for n in ns:
            k = len(VALID[n]) if wide else min(len(VALID[n]), r.choice([1, 1, 2, 3]))
            conns[n] = r.sample(VALID[n], k)
        fams = set(r.sample(CORE, r.choice([1, 2, 2, 3, 4])))
        fams |= set(r.sample(AUX, r.choice([0, 1, 1, 2, 3, 5])))
        if wide:
            fams = set(r.sample(["prep", "mub", "lookup"], r.choice([2, 3]))) | set(r.sample(AUX, r.choice([0, 1])))
        length = r.randint(3, 12) if r.random() < 0.5 else r.randint(13, 40)
        if wide:
            length = r.randint(30, 70)
        elif self.tier == "thorough" and r.random() < 0.05:
            length = r.randint(70, 110)
        m, d, inv, rd, it = BATCH_RATES[self.batch]
        jitter = lambda x: x * r.choice([0.5, 1.0, 1.0, 1.5])  # noqa: E731
        groups = {n: [Lt.random_group(r, n) for _ in range(r.choice([1, 2, 2, 3]))] for n in ns}
        # simulated time between the caller's actions: none / milliseconds / minutes / days (TTL-style logic, if a
        # change ever introduces one, sees both "just now" and "long ago")
        dt = r.choice([None, None, "ms", "minutes", "days", "mixed"])
        return {"ns": ns, "conns": conns, "families": sorted(fams), "length": length, "wide": wide, "dt": dt,
                "p_mutate": jitter(m), "p_drop": jitter(d), "p_invalid": jitter(inv),
                "p_read": jitter(rd), "p_intr": jitter(it),
                "p_dependent": r.choice([0.5, 0.7, 0.7, 0.9]),
                "p_reuse": r.choice([0.3, 0.5, 0.7, 0.95]),
                "alias_bias": r.choice([0.5, 0.8, 0.95]),
                "big_fitter": r.random() < (0.02 if self.tier == "quick" else 0.15),
                "fst5": r.random() < (0.25 if self.tier == "quick" else 0.5),
                "groups": groups}

    def draw_dt(self):
        r = self.rng
        mode = self.cfg.get("dt")
        if mode == "mixed":
            mode = r.choice(["ms", "minutes", "days"])
        if mode == "ms":
            return round(r.uniform(0.0001, 0.05), 6)
        if mode == "minutes":
            return round(r.uniform(1, 3600), 3)
        if mode == "days":
            return round(r.uniform(3600, 30 * 86400), 1)
        return 0.0

    def describe_config(self):
        c = dict(self.cfg)
        c["groups"] = {str(n): len(g) for n, g in c["groups"].items()}
        c["conns"] = {str(n): v for n, v in c["conns"].items()}
        return c

    # ------------------------------------------------------------------ helpers
    def _id(self):
        self.next_id += 1
        return self.next_id

    def _n(self):
        if self._force:
            return self._force[0]
        return self.rng.choice(self.cfg["ns"])

    def _conn(self, n, allow_invalid=True):
        r = self.rng
        if self._force and n == self._force[0]:
            return self._force[1]
        if allow_invalid and r.random() < self.cfg["p_invalid"]:
            return r.choice(INVALID_CONNS)
        if n in self.cfg["conns"]:
            return r.choice(self.cfg["conns"][n])
        return r.choice(VALID.get(n, ["all"]))

    def _slots(self, ex, pred):
        return [sid for sid, m in ex.meta.items() if pred(m)]

    def _call(self, op, args=(), kw=()):
        return {"id": self._id(), "kind": "call", "op": op, "args": list(args), "kw": [list(x) for x in kw]}

    @staticmethod
    def lit(c):
        return {"lit": c}

    @staticmethod
    def ref(sid, path=None):
        return {"ref": sid, "path": path or []}

    # ------------------------------------------------------------------ typed needs
    def need_stab(self, ex, n, pre, allow_invalid=True):
        """A Stabilizer argument for n qubits: reuse a live one, or build one through a constructor
        call (all four input formats), or hand in a literal object."""
        r = self.rng
        if r.random() < self.cfg["p_reuse"]:
            c = self._slots(ex, lambda m: m["tag"] == "Stabilizer" and m["info"].get("n") == n)
            if c:
                return self.ref(r.choice(c))
        R, S, ph = self._presentation(n)
        if allow_invalid and r.random() < self.cfg["p_invalid"]:
            R, S, ph = self._break_stabilizer(R, S, ph)
        style = r.random()
        if style > 0.9:
            # the fourth input format: a Clifford circuit (the group is then whatever the circuit prepares)
            st = self._call("stab.new", [self.need_qc(ex, n, allow_invalid=allow_invalid)])
            pre.append(st)
            return self.ref(st["id"])
        if style < 0.15:
            return self.lit(Lt.stabilizer_obj(R, S, ph))
        if style < 0.55:
            strs = Lt.pauli_strings(R, S, ph, r.randrange(2))
            if allow_invalid and r.random() < self.cfg["p_invalid"] * 0.5 and len(strs) > 1:
                k = r.randrange(1, len(strs))      # a bad character / a wrong length, never in the first string
                strs[k] = r.choice([strs[k].lower(), strs[k][:-1], strs[k] + "X", strs[k].replace("I", "_", 1)])
            data = self.lit(Lt.lst(strs))
        elif style < 0.85:
            dt = r.choice(["int8", "int8", "int64", "bool", "uint8", "float64", "int8", "int8", "int64", "bool", "uint8", "float64",
                           "complex128", "float32", "int16", "complex64"])
            if dt in ("complex128", "complex64", "float32"):
                # rare argument classes (output of np.linalg / scipy / a GPU array): one of the two matrices, or both
                items = [Lt.ndx(R, dt), Lt.ndx(S, dt) if r.random() < 0.5 else Lt.nd(S, "int8")]
                if r.random() < 0.3:
                    items = [Lt.nd(R, "int8"), Lt.ndx(S, dt)]
            else:
                items = [Lt.nd(R, dt), Lt.nd(S, dt)] if dt != "float64" else [Lt.ndf(R), Lt.ndf(S)]
            if r.random() < 0.6:
                items.append(Lt.nd(ph, r.choice(["int8", "int64"])))
            data = self.lit(Lt.tup(items))
        else:
            adj = Lt.random_adj(r, n, r.choice([0.3, 0.6, 1.0]))
            if r.random() < 0.5:
                g = self._call("graph.new", [self.lit(Lt.nd(adj, r.choice(["int8", "int64"])))])
                pre.append(g)
                data = self.ref(g["id"])
            else:
                data = self.lit(Lt.graph_obj(adj))
        kw = [["validate", self.lit(True)]] if r.random() < 0.25 else []
        st = self._call("stab.new", [data], kw)
        pre.append(st)
        return self.ref(st["id"])

    def _presentation(self, n):
        r = self.rng
        groups = self.cfg["groups"].get(n)
        if not groups:
            groups = self.cfg["groups"][n] = [Lt.random_group(r, n)]
        R, S = r.choice(groups)
        return Lt.present(r, R, S)

    def _break_stabilizer(self, R, S, ph):
        r = self.rng
        n = len(R)
        R = [row[:] for row in R]
        S = [row[:] for row in S]
        how = r.randrange(3)
        if how == 0 and n >= 2:      # dependent generators
            for q in range(n):
                R[q][1], S[q][1] = R[q][0], S[q][0]
        elif how == 1:               # (very likely) anticommuting
            q, g = r.randrange(n), r.randrange(n)
            R[q][g] ^= 1
        else:                        # identity generator
            g = r.randrange(n)
            for q in range(n):
                R[q][g] = S[q][g] = 0
        return R, S, ph

    def need_qc(self, ex, n, allow_invalid=True, extended=0.3):
        r = self.rng
        if r.random() < self.cfg["p_reuse"]:
            c = self._slots(ex, lambda m: m["tag"] == "qc" and m["info"].get("nq") == n)
            if c:
                return self.ref(r.choice(c))
        bad = allow_invalid and r.random() < self.cfg["p_invalid"]
        qregs = None
        if n >= 2 and r.random() < 0.1:
            k = r.randint(1, n - 1)
            qregs = [["qa", k], ["qb", n - k]]     # the same qubits, declared as two registers
        ops = Lt.random_clifford_ops(r, n, r.randint(0, 10), non_clifford=bad, extended=r.random() < extended)
        if r.random() < self.cfg.get("qc_composite", 0.08):
            # a user-defined composite gate: the NAME is always the same, the definition varies
            k = r.randint(1, min(2, n))
            sub = Lt.qc(k, Lt.random_clifford_ops(r, k, r.randint(1, 4)))
            ops.insert(r.randrange(len(ops) + 1), ("layer", r.sample(range(n), k), [], [], sub))
        cregs = ()
        if r.random() < self.cfg.get("qc_measured", 0.06):
            # a circuit already prepared for execution: final measurements into the caller's own classical register
            # (what measure_all() or a hand-written read-out leaves behind)
            qs = list(range(n)) if r.random() < 0.6 else sorted(r.sample(range(n), r.randint(1, n)))
            cname = r.choice(["meas", "c", "out"])
            cregs = [(cname, len(qs))]
            if cname == "meas":
                ops.append(("barrier", list(range(n))))
            ops += [("measure", [q], [k]) for k, q in enumerate(qs)]
        return self.lit(Lt.qc(n, ops, cregs=cregs, qregs=qregs))

    def need_graph(self, ex, n):
        r = self.rng
        if r.random() < self.cfg["p_reuse"]:
            c = self._slots(ex, lambda m: m["tag"] == "Graph" and m["info"].get("n") == n)
            if c:
                return self.ref(r.choice(c))
        return self.lit(Lt.graph_obj(Lt.random_adj(r, n, r.choice([0.2, 0.5, 0.9]))))

    def need_mat(self, rows, cols, dtype=None):
        r = self.rng
        rows_ = [[r.randrange(2) for _ in range(cols)] for _ in range(rows)]
        dt = dtype or r.choice(["int8", "int64", "uint8", "int8", "int64", "uint8", "bool", "float64", "complex128", "float32"])
        if dt in ("float64", "complex128", "float32"):
            return self.lit(Lt.ndx(rows_, dt))
        return self.lit(Lt.nd(rows_, dt))

    def _counts(self, nbits, k=None):
        """outcome dictionary as a backend returns it; sometimes with register-separating blanks in the keys (legal),
        sometimes (failing requests) with one malformed key that is NOT the first one"""
        r = self.rng
        k = k or r.randint(1, 4)
        blanks = nbits >= 2 and r.random() < 0.15
        cut = r.randrange(1, nbits) if blanks else None
        d = {}
        for _ in range(k):
            key = "".join(r.choice("01") for _ in range(nbits))
            if blanks:
                key = key[:cut] + " " + key[cut:]
            d[key] = r.randint(1, 200)
        if r.random() < 0.1:
            d = {k: Lt.flt(v / 8.0) for k, v in d.items()}      # relative frequencies instead of integer counts
        if r.random() < self.cfg["p_invalid"] * 0.6:
            bad = r.choice(["0x" + "1" * max(0, nbits - 2), "2" * nbits, "1" * max(1, nbits - 1) if nbits > 1 else "", "ab"])
            items = list(d.items())
            items.insert(r.randint(1, len(items)), (bad, r.randint(1, 50)))
            d = dict(items)
        return d

    # ------------------------------------------------------------------ call recipes
    def gen_call(self, ex, family=None):
        """-> list of steps (prerequisites first, the call last)."""
        r = self.rng
        fams = self.cfg["families"]
        fam = family or r.choice(fams)
        pre = []
        fn = getattr(self, "_fam_" + fam)
        st = fn(ex, pre)
        return pre + ([st] if st is not None else [])

    def _fam_prep(self, ex, pre):
        r = self.rng
        n = self._n()
        op = r.choice(["prep.get_preparation_circuit", "prep.get_preparation_circuit", "prep.get_readout_circuit",
                       "prep.compress_preparation_circuit"])
        conn = self._conn(n)
        if r.random() < self.cfg["p_invalid"] * 0.5:
            n = r.choice([1, 7])
        first = (self.need_qc(ex, n, extended=self.cfg.get("qc_extended", 0.6)) if op.endswith("compress_preparation_circuit")
                 else self.need_stab(ex, n, pre))
        if conn == "all" and r.random() < 0.3:
            return self._call(op, [first])
        if r.random() < 0.3:
            return self._call(op, [first], [["connectivity", self.lit(conn)]])
        return self._call(op, [first, self.lit(conn)])

    def _fam_mub(self, ex, pre):
        r = self.rng
        n = self._n()
        if r.random() < self.cfg["p_invalid"] * 0.5:
            n = r.choice([1, 7, 0])
        op = r.choice(["mub.get_mub_circuits", "mub.get_mubs", "mub.get_mubs", "mub.get_mub_info"])
        nlit = self.lit(Lt.npint(n)) if r.random() < 0.08 else self.lit(n)
        return self._call(op, [nlit, self.lit(self._conn(n))])

    def _fam_lookup(self, ex, pre):
        r = self.rng
        n = self._n()
        which = r.random()
        if which < 0.45:
            cid = r.randrange(NCLASSES[n])
            if r.random() < self.cfg["p_invalid"]:
                cid = r.choice([-1, NCLASSES[n], 10 ** 6])
            nlit = self.lit(Lt.npint(n)) if r.random() < 0.08 else self.lit(n)
            return self._call("lookup.stabilizer_circuit_lookup", [nlit, self.lit(self._conn(n)), self.lit(cid)])
        if which < 0.7:
            nlit = self.lit(Lt.npint(n)) if r.random() < 0.08 else self.lit(n)
            return self._call("lookup.mub_circuit_lookup", [nlit, self.lit(self._conn(n))])
        if which < 0.8:
            c = self._slots(ex, lambda m: m["tag"] == "StabilizerCircuitInfo")
            if c:
                return self._call("lookup.info_parse_circuit", [self.ref(r.choice(c))])
        if which < 0.88:
            c = self._slots(ex, lambda m: m["tag"] == "MUBInfo")
            if c:
                return self._call("lookup.mubinfo_copy", [self.ref(r.choice(c))])
        if which < 0.92:
            line = f"{r.randrange(2 ** (n * (n - 1) // 2))}:{r.randrange(9)}:{r.randrange(6)}:h0 cz0,1"
            if r.random() < self.cfg["p_invalid"]:
                line = "1:2:h0"
            return self._call("lookup.StabilizerCircuitInfo", [self.lit(n), self.lit(line)])
        if which < 0.95:
            lines = ["7:3:2"] + [",".join("XZ"[(i + j) % 2] * n for j in range(n)) + ":h0 cz0,1" for i in range(2)] + [""]
            return self._call("lookup.MUBInfo", [self.lit(n), self.lit(Lt.lst(lines))])
        toks = []
        for _ in range(r.randint(0, 6)):
            g = r.choice(["h", "s", "sdg", "cx", "cz", "swap"])
            if g in ("cx", "cz", "swap"):
                a, b = r.sample(range(n), 2)
                toks.append(f"{g}{a},{b}")
            else:
                toks.append(f"{g}{r.randrange(n)}")
        if r.random() < self.cfg["p_invalid"]:
            toks.append(r.choice(["q0", "cy0,1", "h9"]))
        return self._call("lookup.parse_circuit", [self.lit(n), self.lit(" ".join(toks))])

    def _fam_tomo(self, ex, pre):
        r = self.rng
        n = self._n()
        fst_max = 6 if self.cfg["big_fitter"] else (5 if self.cfg.get("fst5") else 4)   # FST fitter: 0.6 s at n=5, 4.5 s at n=6
        which = r.random()
        # -- fitters on circuits produced earlier
        if which < 0.3:
            c = self._slots(ex, lambda m: m["tag"] == "qc" and m.get("op") == "tomo.stabilizer_measurement_circuit")
            if c:
                sid = r.choice(c)
                nbits = ex.meta[sid]["info"].get("nc", n)
                res = self.lit(Lt.fake_result(self._counts(nbits) if r.random() < 0.7
                                              else [self._counts(nbits), self._counts(nbits)]))
                full = self.lit(r.random() < 0.5)
                style = r.random()
                if style < 0.5:
                    return self._call("tomo.smf_expectation_values", [res, self.ref(sid), self.lit(r.randrange(2)), full])
                f = self._call("tomo.SMF.new", [res, self.ref(sid)])
                pre.append(f)
                return self._call(r.choice(["tomo.SMF.expectation_values", "tomo.SMF.density_matrix"]),
                                  [self.ref(f["id"])], [["full_hilbert_space", full]])
        if which < 0.5:
            c = self._slots(ex, lambda m: m["tag"] == "list[qc]" and m.get("op") == "tomo.full_state_tomography_circuits"
                            and m["info"].get("nm", 9) <= fst_max)
            if c:
                sid = r.choice(c)
                info = ex.meta[sid]["info"]
                nbits, ncirc = info.get("nc", n), info.get("len", 2 ** n + 1)
                res = self.lit(Lt.fake_result([self._counts(nbits, 2) for _ in range(ncirc)]))
                full = self.lit(r.random() < 0.5)
                if r.random() < 0.5:
                    return self._call("tomo.fst_density_matrix", [res, self.ref(sid), full])
                f = self._call("tomo.FST.new", [res, self.ref(sid)])
                pre.append(f)
                return self._call(r.choice(["tomo.FST.expectation_values", "tomo.FST.density_matrix"]),
                                  [self.ref(f["id"])], [["full_hilbert_space", full]])
        if which < 0.56:
            nb = r.randint(1, 5)
            args = [self.lit(Lt.dct(list(self._counts(nb, r.randint(2, 5)).items())))]
            if r.random() < 0.75:
                args.append(self.lit(Lt.lst(r.sample(range(nb), r.randint(1, nb)))))
            return self._call("tomo.CircuitResult", args)
        if which < 0.59:
            return self._call("tomo.z_pauli_from_bitstring", [self.lit(n), self.lit(r.randrange(2 ** n))])
        if which < 0.62:
            sub = r.random()
            crs = self._slots(ex, lambda m: m["tag"] == "CircuitResult")
            brs = self._slots(ex, lambda m: m["tag"] == "BinaryResult")
            if sub < 0.3 and crs:
                return self._call("tomo.CircuitResult.str", [self.ref(r.choice(crs))])
            if sub < 0.5 and brs:
                return self._call("tomo.BinaryResult.eq", [self.ref(r.choice(brs)), self.ref(r.choice(brs))])
            if sub < 0.65 and brs:
                return self._call("tomo.BinaryResult.str", [self.ref(r.choice(brs))] + ([self.lit(4)] if r.random() < 0.5 else []))
            if sub < 0.85:
                return self._call("tomo.BinaryResult", [self.lit(r.randrange(16)), self.lit(r.randint(1, 50))])
            return self._call("tomo.ReadoutInfo", [self.need_qc(ex, n, False), self.lit(n + 1), self.lit(Lt.tup(list(range(n))))])
        # -- measurement circuits
        subset = r.random() < 0.4
        N = n + r.randint(1, 2) if subset else n
        prep = self.need_qc(ex, N, allow_invalid=False)
        conn = self._conn(n)
        mq = None
        if subset:
            mq = r.sample(range(N), n)
            if r.random() < self.cfg["p_invalid"]:
                mq = mq[:-1]
        if r.random() < 0.5:
            stab = self.need_stab(ex, n, pre)
            args = [prep, stab, self.lit(conn)]
            if mq is not None:
                args.append(self.lit(Lt.lst(mq) if r.random() < 0.7 else Lt.tup(mq)))
            return self._call("tomo.stabilizer_measurement_circuit", args)
        args = [prep, self.lit(conn)]
        kw = []
        if mq is not None:
            form = r.random()
            lo = min(mq)
            if form < 0.15 and sorted(mq) == list(range(lo, lo + len(mq))):
                mqv = {"t": "range", "v": [lo, lo + len(mq), 1]}
            elif form < 0.4:
                mqv = Lt.tup(mq)
            elif form < 0.5:
                mqv = Lt.lst([Lt.npint(q) for q in mq])
            else:
                mqv = Lt.lst(mq)
            kw.append(["measured_qubits", self.lit(mqv)])
        return self._call("tomo.full_state_tomography_circuits", args, kw)

    def _fam_conn(self, ex, pre):
        r = self.rng
        op = r.choice(["conn.get_available_connectivities", "conn.is_connectivity_supported",
                       "conn.assert_connectivity_is_supported", "conn.get_connectivity_graph"])
        if op.endswith("get_available_connectivities"):
            return self._call(op)
        n = r.choice(self.cfg["ns"] + [r.choice([1, 7])])
        conn = r.choice(VALID.get(n, ["all"]) + ["E", "H", "ladder", "Q", "T", "cycle", "nope"])
        return self._call(op, [self.lit(n), self.lit(conn)])

    def _fam_stab(self, ex, pre):
        r = self.rng
        n = self._n()
        s = self.need_stab(ex, n, pre)
        op = r.choice(["stab.validate", "stab.expand", "stab.is_qubit_entangled", "stab.is_equivalent_mod_phase",
                       "stab.to_list", "stab.eq", "stab.repr"] * 3 + ["stab.is_equivalent", "stab.expectation_value"])
        if op == "stab.is_equivalent":
            return self._call(op, [s, self.need_stab(ex, n, pre)])
        if op == "stab.expectation_value":
            return self._call(op, [s, self.lit("Z" * n)])
        if op == "stab.is_qubit_entangled":
            return self._call(op, [s, self.lit(r.randrange(n))])
        if op in ("stab.is_equivalent_mod_phase", "stab.eq"):
            return self._call(op, [s, self.need_stab(ex, n, pre)])
        if op == "stab.to_list":
            return self._call(op, [s], [["qiskit_convention", self.lit(r.random() < 0.5)]])
        return self._call(op, [s])

    def _fam_graph(self, ex, pre):
        r = self.rng
        n = self._n()
        which = r.random()
        if which < 0.25:
            op = r.choice(["graph.fully_connected", "graph.star", "graph.linear", "graph.cycle", "graph.decompress",
                           "graph.new", "graph.pusteblume"])
            if op == "graph.decompress":
                return self._call(op, [self.lit(n), self.lit(r.randrange(2 ** (n * (n - 1) // 2)))])
            if op == "graph.new":
                if r.random() < 0.3:
                    return self._call(op, [self.lit(n)])
                return self._call(op, [self.lit(Lt.nd(Lt.random_adj(r, n, 0.5), r.choice(["int8", "int64", "bool"])))])
            if op == "graph.star" and r.random() < 0.5:
                return self._call(op, [self.lit(n), self.lit(r.randrange(n))])
            return self._call(op, [self.lit(n)])
        g = self.need_graph(ex, n)
        if isinstance(g, dict) and "lit" in g:
            mk = {"id": self._id(), "kind": "lit", "value": g["lit"]}
            pre.append(mk)
            g = self.ref(mk["id"])
        a, b = r.randrange(n), r.randrange(n)
        op = r.choice(["graph.compress", "graph.copy", "graph.local_complementation", "graph.local_complemented",
                       "graph.add_edge", "graph.remove_edge", "graph.add_path", "graph.add_star",
                       "graph.remove_all_edges_to", "graph.clear", "graph.swap", "graph.get_edges",
                       "graph.edge_count", "graph.has_edge", "graph.to_circuit", "graph.eq"])
        if op in ("graph.local_complementation", "graph.local_complemented", "graph.remove_all_edges_to"):
            return self._call(op, [g, self.lit(a)])
        if op in ("graph.add_edge", "graph.remove_edge", "graph.swap", "graph.has_edge"):
            return self._call(op, [g, self.lit(a), self.lit(b)])
        if op in ("graph.add_path", "graph.add_star"):
            return self._call(op, [g, self.lit(Lt.lst(r.sample(range(n), r.randint(1, n))))])
        if op == "graph.eq":
            return self._call(op, [g, self.need_graph(ex, n)])
        return self._call(op, [g])

    def _fam_lc(self, ex, pre):
        r = self.rng
        n = self._n()
        which = r.random()
        c = self._slots(ex, lambda m: m["tag"].startswith("LCClass"))
        if c and which < 0.45:
            sid = r.choice(c)
            op = r.choice(["lc.id", "lc.get_graph", "lc.str", "lc.eq", "lc.num_qubits", "lc.get_graph", "lc.id"])
            if op == "lc.eq":
                return self._call(op, [self.ref(sid), self.ref(r.choice(c))])
            return self._call(op, [self.ref(sid)])
        if which < 0.7:
            s = self.need_stab(ex, n, pre)
            if r.random() < 0.25:
                return self._call("lc.determine_direct", [self.lit(n), s])
            return self._call("lc.determine_lc_class", [s])
        if which < 0.74:
            return self._call("lc.count", [self.lit(n)])
        if which < 0.78:
            return self._call("lc.get_LC_type", [self.lit(n), self.lit(r.randrange(NCLASSES[n]))])
        if which < 0.8:
            return self._call("lc.LC_GI_size", [self.lit(n), self.lit(r.randrange(2))])
        if which < 0.84:
            return self._call("lc.bits", [self.lit(r.randrange(2 ** n)), self.lit(n)])
        if which < 0.9:
            k = r.randint(1, 6)
            sig = [[r.randrange(2) for _ in range(n)] for _ in range(k)]
            if r.random() < 0.5:
                return self._call("lc.count_identity_structures", [self.lit(Lt.nd(sig, "int8"))])
            return self._call("lc.count_identity_string", [self.lit(Lt.nd(sig, "int8")), self.lit(Lt.lst(sig[0]))])
        if which < 0.93:
            reprs = self._slots(ex, lambda m: m["tag"] == "Repr")
            args = [self.lit(n), self.lit(r.randrange(3))]
            if reprs and r.random() < 0.6:
                args.append(self.ref(r.choice(reprs)))
            return self._call("lc.new_typed", args)
        cid = r.randrange(NCLASSES[n])
        return self._call("lc.new", [self.lit(n), self.lit(cid)])

    def _fam_layer(self, ex, pre):
        r = self.rng
        n = min(self._n(), 5)
        which = r.random()
        if which < 0.1:
            return self._call("layer.gen_symplectic_from_id", [self.lit(Lt.lst([r.randrange(6) for _ in range(n)]))])
        if which < 0.2:
            c = list(r.choice(Lt.SQ_CLIFFORDS))
            cl = self.lit(Lt.lst(c)) if r.random() < 0.5 else self.lit(Lt.nd(c))
            return self._call("layer.gen_single_qubit_symplectic", [cl, self.lit(n), self.lit(r.randrange(n))])
        if which < 0.3:
            c = Lt.lst([Lt.lst(list(r.choice(Lt.SQ_CLIFFORDS))) for _ in range(n)])
            return self._call("layer.gen_symplectic", [self.lit(c)])
        lay = self._slots(ex, lambda m: m["tag"] == "list[nd]" and m["info"].get("len") == 4)
        if lay and which < 0.5:
            return self._call("layer.to_circuit", [self.ref(r.choice(lay))])
        R, S, ph = self._presentation(n)
        m = n if (n >= 5 or r.random() < 0.7) else r.randint(max(1, n - 2), n)
        Rm = [row[:m] for row in R]
        Sm = [row[:m] for row in S]
        g = self.need_graph(ex, n)
        if lay and which < 0.65:
            return self._call("layer.check_LC", [self.lit(Lt.nd(Rm)), self.lit(Lt.nd(Sm)), g, self.ref(r.choice(lay))])
        return self._call("layer.find_local_clifford_layer", [self.lit(Lt.nd(Rm)), self.lit(Lt.nd(Sm)), g])

    def _fam_rot(self, ex, pre):
        r = self.rng
        n = self._n()
        which = r.random()
        if which < 0.2:
            R, S, ph = self._presentation(n)
            strs = [s if s[0] in "+-" else "+" + s for s in Lt.pauli_strings(R, S, ph)]
            strs = [s[0] + s[1:][::-1] for s in strs]
            if r.random() < 0.3:
                strs = strs[:-1]
            if r.random() < 0.2:
                strs = strs + [strs[0]]
            kw = [[k, self.lit(r.random() < 0.5)] for k in ("allow_redundant", "allow_underconstrained", "invert")
                  if r.random() < 0.4]
            return self._call("rot.synth_circuit_from_stabilizers", [self.lit(Lt.lst(strs))], kw)
        if which < 0.4:
            a = self.need_qc(ex, n, False)
            b = a if r.random() < 0.3 else self.need_qc(ex, n, False)
            return self._call(r.choice(["rot.do_prepare_same_state", "rot.do_prepare_same_state", "rot.assert_same_state"]), [a, b])
        circ = self.need_qc(ex, n, False)
        if "lit" in circ:
            mk = {"id": self._id(), "kind": "lit", "value": circ["lit"]}
            pre.append(mk)
            circ = self.ref(mk["id"])
        target = self.need_stab(ex, n, pre, allow_invalid=False) if r.random() < 0.5 else self.need_qc(ex, n, False)
        if r.random() < 0.3:
            target = circ
        inplace = r.random() < 0.5
        if r.random() < 0.5:
            return self._call("rot.rotate_stabilizer_into_state", [circ, target, self.lit(inplace)])
        return self._call("rot.rotate_stabilizer_into_state", [circ, target], [["inplace", self.lit(inplace)]])

    def _fam_f2(self, ex, pre):
        r = self.rng
        op = r.choice(["f2.rref", "f2.rank", "f2.null_space", "f2.rref_and_basis_change", "f2.mat_mul", "f2.add", "f2.trf"])
        rows, cols = r.randint(1, 8), r.randint(1, 8)
        if op == "f2.trf":
            m = r.randint(2, 6)
            return self._call(op, [self.lit(r.randrange(m)), self.lit(r.randrange(m)), self.lit(m)])
        if op == "f2.mat_mul":
            k = r.randint(1, 6)
            return self._call(op, [self.need_mat(rows, k, "int8"), self.need_mat(k, cols, "int8")])
        if op == "f2.add":
            return self._call(op, [self.need_mat(rows, cols, "int8"), self.need_mat(rows, cols, "int8")])
        if r.random() < 0.15:
            return self._call(op, [self.lit(Lt.nd([[0] * cols for _ in range(rows)], "int8"))])
        return self._call(op, [self.need_mat(rows, cols)])

    def _fam_lin(self, ex, pre):
        r = self.rng
        which = r.random()
        if which < 0.5:
            name = r.choice(list(LIN_NAMES))
            return self._call("lin.to", [self.lit(name), self.lit(r.randrange(LIN_NAMES[name]))])
        c = self._slots(ex, lambda m: m["tag"] == "Repr" and m.get("op") == "lin.to")
        if c and which < 0.85:
            sid = r.choice(c)
            name = ex.meta[sid]["info"].get("lin_name")
            if name:
                return self._call("lin.from", [self.lit(name), self.ref(sid)])
        n = r.randint(3, 6)
        i = r.randrange(n - 1)
        j = r.randrange(i + 1, n)
        sub = r.random()
        if sub < 0.2:
            return self._call("lin.choose2_from", [self.lit(n), self.lit(i), self.lit(j)])
        if sub < 0.4:
            return self._call("lin.choose2_to", [self.lit(n), self.lit(r.randrange(n * (n - 1) // 2))])
        if sub < 0.5:
            return self._call("lin.1n", [self.lit(n), self.lit(r.randrange(n))])
        nts = self._slots(ex, lambda m: m["tag"] == "NTuple")
        reprs = self._slots(ex, lambda m: m["tag"] == "Repr")
        if sub < 0.62 or not nts:
            data = Lt.lst(r.sample(range(6), r.randint(1, 4))) if r.random() < 0.85 else r.randrange(6)
            mk = {"id": self._id(), "kind": "lit", "value": data}
            pre.append(mk)
            return self._call("lin.NTuple", [self.ref(mk["id"])])
        if sub < 0.7:
            return self._call("lin.NTuple.query", [self.ref(r.choice(nts)), self.ref(r.choice(nts))])
        if sub < 0.8 or not reprs:
            perm = r.sample(range(6), 6)
            cut = sorted(r.sample(range(1, 6), r.randint(1, 3)))
            parts = [perm[a:b] for a, b in zip([0] + cut, cut + [6])]
            mk = {"id": self._id(), "kind": "lit", "value": Lt.lst([Lt.lst(x) for x in parts])}
            pre.append(mk)
            return self._call("lin.Repr", [self.ref(mk["id"])])
        if sub < 0.9:
            return self._call("lin.Repr.query", [self.ref(r.choice(reprs)), self.ref(r.choice(reprs)),
                                                 self.lit(r.randint(1, 3)), self.lit(r.randrange(2))])
        return self._call("lin.Repr.add", [self.ref(r.choice(reprs)), self.ref(r.choice(nts))])

    # ------------------------------------------------------------------ adversarial events
    def gen_mutation(self, ex):
        """Pick a live returned object (biased towards sub-objects aliased to library state and towards
        results of cache-backed calls) and mutate it; usually schedule a dependent call right after."""
        r = self.rng
        cands = []
        for sid, m in ex.meta.items():
            for path, kind, aliased, hint in m["subs"]:
                if kind == "tuple":
                    continue
                w = 1.0
                if aliased:
                    w *= 1 + 20 * self.cfg["alias_bias"]
                if m.get("key"):
                    w *= 3
                if m.get("op") == "lit":
                    w *= 0.3
                cands.append((w, sid, path, kind, hint))
        if not cands:
            return None
        _, sid, path, kind, hint = r.choices(cands, weights=[c[0] for c in cands], k=1)[0]
        mut, params = self._draw_mutation(kind, hint, ex.meta[sid], path)
        if mut is None:
            return None
        steps = [{"id": self._id(), "kind": "mutate", "target": {"ref": sid, "path": path}, "mut": mut, "params": params}]
        if r.random() < self.cfg["p_dependent"]:
            steps += self.gen_dependent(ex, sid)
        return steps

    def _junk_like(self, meta_canon_elem, n_hint=2):
        r = self.rng
        c = meta_canon_elem
        if isinstance(c, str):
            return r.choice(["Q" * max(1, len(c)), "Z" * max(1, len(c)), "", c[::-1]])
        if isinstance(c, bool):
            return not c
        if isinstance(c, int):
            return r.choice([c + 1, 0, -1, 999])
        if isinstance(c, dict):
            t = c.get("t")
            if t == "list":
                return Lt.lst([self._junk_like(c["v"][0])] if c["v"] else [])
            if t == "tuple":
                return Lt.tup([7, "all"])
            if t == "qc":
                return Lt.qc(c["nq"], [("x", [0])])
            if t == "nd":
                return {"t": "nd", "dt": c["dt"], "sh": c["sh"], "v": [0] * len(c.get("v", []))} if "v" in c else 0
            if t == "float":
                return Lt.flt(-1.5)
        return 0

    def _draw_mutation(self, kind, hint, meta, path=()):
        r = self.rng
        if kind == "list":
            n = hint or 0
            root = meta.get("canon")
            # a plausible junk element of the same kind as the list's own elements
            sample = self._sample_elem(canon_at(root, path) if root is not None else None)
            junk = self._junk_like(sample) if sample is not None else "QQ"
            muts = ["clear", "append", "reverse", "sort"] + (["pop", "set", "del", "swap"] if n > 0 else [])
            m = r.choice(muts)
            if m in ("pop", "del"):
                return m, {"i": r.randrange(n)}
            if m == "set":
                return m, {"i": r.randrange(n), "junk": junk}
            if m == "swap":
                return m, {"i": r.randrange(n), "j": r.randrange(n)}
            if m == "append":
                return m, {"junk": junk}
            return m, {}
        if kind == "dict":
            n = hint or 0
            m = r.choice(["clear", "set"] + (["pop", "setval"] if n > 0 else []))
            if m == "set":
                return m, {"key": r.choice(["num circuits", "readout info", "junk"]), "junk": r.choice([0, 999, "x"])}
            if m in ("pop", "setval"):
                return m, {"i": r.randrange(n), "junk": r.choice([0, 999, "x"])}
            return m, {}
        if kind == "qc":
            nq, nops = hint
            m = r.choice(["gate", "gate", "gate", "clear", "phase", "measure_all", "set_md", "set_name"]
                         + (["del_data", "set_param", "set_param"] if nops > 0 else []))
            if m == "set_param":
                return m, {"k": r.randrange(8), "v": Lt.HALF_PI * r.randrange(4)}
            if m == "gate":
                if nq >= 2 and r.random() < 0.4:
                    return m, {"g": r.choice(["cx", "cz"]), "q": r.sample(range(nq), 2)}
                return m, {"g": r.choice(["x", "h", "s", "z"]), "q": [r.randrange(max(1, nq))]}
            if m == "del_data":
                return m, {"i": r.randrange(nops)}
            if m == "set_md":
                return m, {"key": r.choice(["readout info", "note"]), "junk": r.choice([0, "x"])}
            if m == "set_name":
                return m, {"name": "renamed"}
            return m, {}
        if kind == "nd":
            sh = hint
            if path and path[-1] == ["a", "adjacency_matrix"]:
                # a Graph's matrix stays a valid adjacency matrix: symmetric, zero diagonal
                if not sh or len(sh) != 2 or sh[0] < 2:
                    return None, None
                if r.random() < 0.15:
                    return "fill", {"v": 0}
                i, j = r.sample(range(sh[0]), 2)
                return "flip_sym", {"idx": [i, j]}
            if not sh or 0 in sh:
                return "fill", {"v": 1}
            big = len(sh) == 2 and sh[0] >= 5 and sh[0] == sh[1]
            # (zeroing a 5/6-qubit R or S makes the layer search enumerate 2^20..2^24 combinations: seconds and GBs)
            m = r.choice(["flip", "flip"] + ([] if big else ["fill"]) + (["swapcols"] if len(sh) == 2 and sh[1] >= 2 else []))
            if m == "flip":
                return m, {"idx": [r.randrange(s) for s in sh]}
            if m == "fill":
                return m, {"v": r.randrange(2)}
            return m, {"i": 0, "j": sh[1] - 1}
        # library object: assign one public attribute a value of the same type - but never a DERIVED attribute
        # (one that the class keeps equal to a function of another: the caller would build an object no
        # constructor or method can produce, e.g. a Graph whose num_vertices contradicts its matrix)
        if isinstance(hint, list) and hint:
            hint = [h for h in hint if (meta_cls(meta, path), h[0]) not in DERIVED_ATTRS]
            if not hint:
                return None, None
            name, tname = r.choice(hint)
            junk = {"int": r.choice([0, 1, 3, 999]), "str": r.choice(["h0", "", "cz0,1 h1"]), "bool": True,
                    "NoneType": 0, "tuple": Lt.tup([0, 1]), "list": Lt.lst([]), "float": Lt.flt(2.5)}.get(tname)
            if junk is None:
                return None, None
            return "set_attr", {"name": name, "junk": junk}
        return None, None

    @staticmethod
    def _sample_elem(c):
        """first leaf-ish element found in a canonical list structure (for junk generation)"""
        if isinstance(c, dict) and c.get("t") in ("list", "tuple") and c["v"]:
            return c["v"][0]
        return None

    def gen_dependent(self, ex, sid):
        """A call that depends on the object / cache key just disturbed."""
        r = self.rng
        m = ex.meta.get(sid)
        if m is None:
            return []
        choices = []
        if m.get("op") and m["op"] != "lit":
            choices += ["reissue", "reissue"]
        if m.get("key"):
            choices += ["sibling", "sibling"]
        choices.append("consume")
        how = r.choice(choices)
        if how == "reissue":
            return [self._call(m["op"], m.get("args", []), m.get("kw", []))]
        if how == "sibling":
            return self.gen_sibling(ex, m["key"])
        return self.gen_consumer(ex, sid)

    def gen_sibling(self, ex, key):
        """Another cache-backed call on the same table (key e.g. "mub3-linear" / "stabilizer4-star")."""
        r = self.rng
        import re
        mt = re.match(r"^(mub|stabilizer)(\d)-(.*)$", key or "")
        if not mt:
            return []
        kind, n, conn = mt.group(1), int(mt.group(2)), mt.group(3)
        pre = []
        if kind == "mub":
            op = r.choice(["mub.get_mubs", "mub.get_mub_circuits", "mub.get_mub_info", "lookup.mub_circuit_lookup",
                           "tomo.full_state_tomography_circuits"])
            if op.startswith("tomo"):
                return [self._call(op, [self.need_qc(ex, n, False), self.lit(conn)])]
            return [self._call(op, [self.lit(n), self.lit(conn)])]
        if n not in NCLASSES:
            return []
        op = r.choice(["prep.get_preparation_circuit", "prep.get_readout_circuit", "lookup.stabilizer_circuit_lookup",
                       "prep.compress_preparation_circuit"])
        if op.startswith("lookup"):
            return [self._call(op, [self.lit(n), self.lit(conn), self.lit(r.randrange(NCLASSES[n]))])]
        first = self.need_qc(ex, n, False) if "compress" in op else self.need_stab(ex, n, pre, False)
        return pre + [self._call(op, [first, self.lit(conn)])]

    def gen_consumers(self, ex, sid, k=3):
        """up to k DIFFERENT questions to one object"""
        out, seen = [], set()
        for _ in range(4 * k):
            st = self.gen_consumer(ex, sid)
            if st and st[-1]["op"] not in seen:
                seen.add(st[-1]["op"])
                out += st
            if len(seen) >= k:
                break
        return out

    def gen_consumer(self, ex, sid):
        """Feed the (possibly mutated) object back into the library."""
        r = self.rng
        m = ex.meta[sid]
        tag, info = m["tag"], m["info"]
        me = self.ref(sid)
        n = info.get("n") or info.get("nq") or self._n()
        if tag == "Stabilizer":
            op = r.choice(["prep.get_preparation_circuit", "prep.get_readout_circuit", "lc.determine_lc_class",
                           "stab.validate", "stab.to_list", "stab.expand", "stab.repr"])
            if op.startswith("prep"):
                return [self._call(op, [me, self.lit(self._conn(n, False))])]
            return [self._call(op, [me])]
        if tag == "qc":
            op = r.choice(["prep.compress_preparation_circuit", "stab.new", "tomo.full_state_tomography_circuits"])
            if op == "stab.new":
                return [self._call(op, [me])]
            if n not in VALID:
                return []
            return [self._call(op, [me, self.lit(self._conn(n, False))])]
        if tag == "Graph":
            return [self._call(r.choice(["stab.new", "graph.compress", "graph.get_edges", "graph.edge_count", "graph.to_circuit",
                                         "graph.copy", "graph.compress", "graph.get_edges"]), [me])]
        if tag == "list[qc]" and m.get("op") == "tomo.full_state_tomography_circuits":
            nbits, ncirc = info.get("nc", n), info.get("len", 5)
            if info.get("nm", 9) > (6 if self.cfg["big_fitter"] else (5 if self.cfg.get("fst5") else 4)):
                return []
            res = self.lit(Lt.fake_result([self._counts(nbits, 2) for _ in range(ncirc)]))
            return [self._call("tomo.fst_density_matrix", [res, me, self.lit(r.random() < 0.5)])]
        if tag == "list[qc]" and info.get("len"):
            # hand ONE element of a returned list back (a sub-object reference, not a copy): compress it, read it as a
            # stabilizer, or let a documented in-place API work on it
            i = r.randrange(info["len"])
            el = self.ref(sid, [i])
            nq = info.get("nq", n)
            op = r.choice(["stab.new", "prep.compress_preparation_circuit", "rot.rotate_stabilizer_into_state",
                           "rot.do_prepare_same_state"])
            if op == "stab.new":
                return [self._call(op, [el])]
            if op == "prep.compress_preparation_circuit":
                return [self._call(op, [el, self.lit(self._conn(nq, False))])] if nq in VALID else []
            other = self.ref(sid, [r.randrange(info["len"])])
            if op == "rot.do_prepare_same_state":
                return [self._call(op, [el, other])]
            return [self._call(op, [el, other, self.lit(True)])]
        if tag == "list[list]" and info.get("len"):
            # a basis from get_mubs fed back as a stabilizer
            i = r.randrange(info["len"])
            st = self._call("stab.new", [self.ref(sid, [i])])
            nn = info.get("n_str") or n
            follow = self._call(r.choice(["prep.get_readout_circuit", "lc.determine_lc_class", "stab.validate"]),
                                [self.ref(st["id"])] )
            if follow["op"].startswith("prep"):
                follow["args"].append(self.lit(self._conn(nn, False)))
            return [st, follow]
        if tag == "tuple" and m.get("op") == "stab.expand":
            return [self._call(r.choice(["f2.rank", "f2.rref", "f2.null_space"]), [self.ref(sid, [r.randrange(2)])])]
        if tag == "StabilizerCircuitInfo":
            return [self._call("lookup.info_parse_circuit", [me])]
        if tag == "MUBInfo":
            sub = r.random()
            if sub < 0.5:
                return [self._call("lookup.mubinfo_copy", [me])]
            if sub < 0.75:
                return [self._call("stab.new", [self.ref(sid, [["a", "circuits"], 0])])]
            return [self._call("stab.new", [self.ref(sid, [["a", "mubs"], 0])])]
        if tag.startswith("LCClass"):
            return [self._call(r.choice(["lc.id", "lc.get_graph", "lc.str"]), [me])]
        if tag == "list[nd]" and info.get("len") == 4:
            return [self._call("layer.to_circuit", [me])]
        return []

    def gen_fault(self, ex, kind, fam=None, arm=None):
        """Arm a fault, issue a call that will meet it (a cold lookup), then re-ask."""
        r = self.rng
        fam = fam or r.choice([f for f in self.cfg["families"] if f in CORE] or ["mub"])
        # aim at a table that is still cold (a fault while the cache is warm tests nothing)
        kind_prefix = "mub" if fam == "mub" else "stabilizer"
        cold = [(n, c) for n in self.cfg["ns"] for c in self.cfg["conns"][n]
                if f"{kind_prefix}{n}-{c}.txt" not in ex.warm]
        if not cold and r.random() < 0.7:
            cold = [(n, c) for n in (2, 3, 4) for c in VALID[n] if f"{kind_prefix}{n}-{c}.txt" not in ex.warm]
        if self._force_sticky:
            pass
        elif cold and r.random() < 0.85:
            self._force = r.choice(cold)
        try:
            saved = self.cfg["p_invalid"]
            self.cfg["p_invalid"] = saved * 0.3
            steps = self.gen_call(ex, fam)
        finally:
            self.cfg["p_invalid"] = saved
            if not self._force_sticky:
                self._force = None
        if not steps or steps[-1]["kind"] != "call":
            return steps
        call = steps[-1]
        if arm is not None:
            arm = dict(arm)
            arm["id"] = self._id()
        elif kind == "read":
            exc = r.choice(["FileNotFoundError", "PermissionError", "OSError", "UnicodeDecodeError", "MemoryError"])
            arm = {"id": self._id(), "kind": "arm_read", "match": "next", "exc": exc}
        else:
            scope = "circuit_lookup.py" if r.random() < 0.5 else "any"
            exc = "KeyboardInterrupt" if r.random() < 0.7 else "MemoryError"
            x = r.random()
            frac = r.random() if x < 0.6 else (0.999999 if x < 0.8 else (r.uniform(0.9, 1.0) if x < 0.95 else 0.0))
            arm = {"id": self._id(), "kind": "arm_intr", "scope": scope, "ordinal": None,
                   "frac": frac, "exc": exc}
        out = steps[:-1] + [arm, call]
        if r.random() < 0.9:
            again = dict(call)
            again["id"] = self._id()
            out.append(again)
        return out

    def gen_triple(self, ex):
        """produce; disturb the result; re-ask - the shortest history in which an aliasing channel shows."""
        steps = self.gen_call(ex)
        if not steps or steps[-1]["kind"] != "call":
            return steps
        return steps + [self._after_call(steps[-1])]

    def _after_call(self, call, rounds=1):
        """deferred: disturb the result of `call`, ask again with the same arguments, question the receivers;
        with rounds > 1 the next round works on the RE-ISSUED call's result (a first call may be a cache miss
        that returns a private object while the second one returns the shared one)"""
        def after(ex2, call=call):
            sid = call["id"]
            m = ex2.meta.get(sid)
            r = self.rng
            cands = [(path, kind, hint) for path, kind, al, hint in (m["subs"] if m else []) if kind != "tuple"]
            # F2: in a third of the rounds the caller edits one of the ARGUMENT objects it passed (its own
            # matrices / graph / circuit, or an earlier result it fed back) instead of the result
            arg_refs = [A["ref"] for A in list(call.get("args", [])) + [a for _, a in call.get("kw", [])]
                        if "ref" in A and A["ref"] in ex2.meta and ex2.meta[A["ref"]]["subs"]]
            if arg_refs and (not cands or r.random() < 0.34):
                sid = r.choice(arg_refs)
                m = ex2.meta[sid]
                cands = [(path, kind, hint) for path, kind, al, hint in m["subs"] if kind != "tuple"]
            if not cands:
                # nothing to disturb in the result (e.g. an in-place op returning None): question the receiver,
                # repeat the op, question the receiver again
                again = dict(call)
                again["id"] = self._id()
                more = [self._after_call(again, rounds - 1)] if rounds > 1 else []
                return receiver_queries(ex2) + self._neighbour_calls(call) + [again] + receiver_queries(ex2) + more
            out = []
            for _ in range(r.choice([1, 1, 2])):
                path, kind, hint = r.choice(cands)
                mut, params = self._draw_mutation(kind, hint, m, path)
                if mut is not None:
                    out.append({"id": self._id(), "kind": "mutate", "target": {"ref": sid, "path": path},
                                "mut": mut, "params": params})
            out += self._neighbour_calls(call)
            again = dict(call)
            again["id"] = self._id()
            out.append(again)
            more = [self._after_call(again, rounds - 1)] if rounds > 1 else []
            return out + receiver_queries(ex2) + more

        def receiver_queries(ex2):
            # an op with a live receiver / object argument: ask the object something else afterwards
            out = []
            for A in call.get("args", [])[:2]:
                if "ref" in A and not A.get("path") and A["ref"] in ex2.meta:
                    out += self.gen_consumers(ex2, A["ref"], 2)
            return out
        return after

    def _neighbour_calls(self, call):
        """Between 'disturb' and 'ask again': the same op with NEIGHBOURING argument values (one or two literal
        arguments slightly changed, possibly into something invalid). A memo whose key is coarser than the argument
        value, a 'last request' shortcut, or a marker that a failing call leaves behind shows on the way back."""
        import copy
        r = self.rng
        if r.random() < 0.25:
            return []
        out = []
        special = None
        if call["op"] == "tomo.CircuitResult" and len(call.get("args", [])) == 2 and all("lit" in A for A in call["args"]):
            # outcome counts + qubit selection: the neighbour that matters is "another selection of the same register,
            # failing on a LATER key" (per-selection state that a failing pass leaves half rebuilt)
            counts, sel = copy.deepcopy(call["args"][0]["lit"]), copy.deepcopy(call["args"][1]["lit"])
            keys = [k for k, _ in counts.get("v", [])] if isinstance(counts, dict) else []
            if keys and isinstance(sel, dict) and sel.get("v"):
                nb_len = len(keys[0].replace(" ", ""))
                other = r.sample(range(nb_len), min(nb_len, len(sel["v"])))
                if other == sel["v"] and len(other) > 1:
                    other.reverse()
                sel["v"] = other
                if r.random() < 0.8:
                    counts["v"].insert(r.randint(1, len(counts["v"])), [r.choice(["0x" + "1" * max(0, nb_len - 2), "2" * nb_len]), 5])
                special = copy.deepcopy(call)
                special["args"] = [{"lit": counts}, {"lit": sel}]
        for _ in range(r.choice([1, 2, 2]) if special is None else r.choice([0, 1])):
            nb = copy.deepcopy(call)
            nb["id"] = self._id()
            slots = [A for A in nb.get("args", []) + [a for _, a in nb.get("kw", [])] if "lit" in A]
            if not slots:
                break
            changed = False
            for A in r.sample(slots, min(len(slots), r.choice([1, 1, 1, 2, len(slots)]))):
                nv = perturb_canon(A["lit"], r)
                if nv is not None:
                    A["lit"] = nv
                    changed = True
            if changed:
                out.append(nb)
        if special is not None:         # last, so that the original call comes right after it
            special["id"] = self._id()
            out.append(special)
        return out

    # ------------------------------------------------------------------ scripted batches
    def _script_k5(self, opname):
        """One op of the alphabet: warm-up in its family, the op itself, then (twice) disturb its result
        and ask again with the same arguments - for EVERY op, every run of the check."""
        fam = opname.split(".")[0]
        self.cfg["families"] = sorted(set(self.cfg["families"]) | {fam})
        self.cfg["p_invalid"] *= 0.3
        self.cfg["length"] = 0
        if fam in ("graph", "stab", "lc", "lin", "rot"):
            self.cfg["p_reuse"] = 0.9      # work on few objects: memo-invalidation needs query / change / query on ONE object
        if opname == "stab.new":
            self.cfg["qc_composite"] = 0.3
        if opname == "prep.compress_preparation_circuit":
            self.cfg["qc_extended"] = 0.95  # circuits with parameterised Clifford gates: neighbours differ in a parameter only
            self.cfg["qc_composite"] = 0.3
            self.cfg["p_reuse"] = 0.2
        n = (self._job or {}).get("n")
        if n:
            if fam == "tomo" and ("FST" in opname or "fst" in opname or "full_state" in opname):
                n = min(n, 6 if self.cfg["big_fitter"] else (5 if self.cfg.get("fst5") else 4))
            if fam == "layer":
                n = min(n, 5)
            self.cfg["ns"] = [n]
            self.cfg["conns"] = {n: self.rng.sample(VALID[n], min(len(VALID[n]), self.rng.choice([1, 2])))}
            self.cfg["groups"] = {n: [Lt.random_group(self.rng, n) for _ in range(self.rng.choice([1, 2, 3]))]}
        if fam == "tomo" and not n and not self.cfg["big_fitter"]:
            ns = [n for n in self.cfg["ns"] if n <= 4] or [self.rng.choice([2, 3])]
            self.cfg["ns"] = ns
            for n in ns:
                self.cfg["conns"].setdefault(n, [self.rng.choice(VALID[n])])
                self.cfg["groups"].setdefault(n, [Lt.random_group(self.rng, n)])
        for pre_op in PREREQ.get(opname, []):
            self.queue.append(self._reach(pre_op))
        for _ in range(self.rng.randint(2, 6)):
            self.queue.append(lambda ex, fam=fam: self.gen_call(ex, fam))

        def target(ex):
            steps = self._reach(opname)(ex)
            hit = [st for st in steps if st["kind"] == "call" and st["op"] == opname]
            if hit:
                self.script_note = "reached"
                call = hit[-1]
                k = steps.index(call)

                def pre_queries(ex2, call=call):
                    # question every live object the call is about to receive BEFORE the call as well:
                    # query / op / query on ONE object is what a stale private memo needs in order to show
                    out = []
                    for A in call.get("args", [])[:2]:
                        if "ref" in A and not A.get("path") and A["ref"] in ex2.meta:
                            out += self.gen_consumers(ex2, A["ref"], 3)
                    return out
                return steps[:k] + [pre_queries] + steps[k:] + [self._after_call(call, rounds=3)]
            self.script_note = "unreachable"
            return []
        self.queue.append(target)

    def _reach(self, opname, tries=4000):
        """deferred: the family recipe, re-drawn until it yields a call of `opname` (rejection sampling)"""
        fam = opname.split(".")[0]

        def go(ex):
            for _ in range(tries):
                steps = self.gen_call(ex, fam)
                if any(st["kind"] == "call" and st["op"] == opname for st in steps):
                    return steps
            return []
        return go

    def _script_k7(self):
        """Tour over 9-20 distinct tables of one kind (or both) in one process, with re-visits of recently and of
        long-ago used tables in between: what a bounded / keyed / ordered cache needs in order to go wrong."""
        r = self.rng
        allt = [(n, c) for n in (2, 3, 4, 5, 6) for c in VALID[n]]
        tables = r.sample(allt, r.randint(9, 20))
        kinds = r.choice([("stabilizer",), ("mub",), ("stabilizer", "mub")])
        self.cfg.update({"ns": sorted({n for n, _ in tables}), "p_invalid": 0.0, "length": 0,
                         "conns": {n: [c for m, c in tables if m == n] for n, _ in tables}})
        for n in self.cfg["ns"]:
            self.cfg["groups"].setdefault(n, [Lt.random_group(r, n)])
        loaded = []          # in load order
        todo = list(tables)
        last_touch = None
        plan = []
        for _ in range(r.randint(25, 45)):
            x = r.random()
            if todo and (not loaded or x < 0.35):
                t = todo.pop(0)
                plan.append(t)
                if t not in loaded:
                    loaded.append(t)
                # right after a load: go back to one of the OLDEST loaded tables, or to what was used just before
                y = r.random()
                if y < 0.4 and len(loaded) > 1:
                    plan.append(r.choice(loaded[:3]))
                elif y < 0.7 and last_touch is not None:
                    plan.append(last_touch)
                last_touch = plan[-1]
                continue
            if x < 0.6:
                t = r.choice(loaded[:3])            # oldest loaded
            elif x < 0.8:
                t = r.choice(loaded[-3:])           # most recently loaded
            else:
                t = r.choice(loaded)
            plan.append(t)
            last_touch = t
        for t in plan:
            key = f"{r.choice(kinds)}{t[0]}-{t[1]}"
            self.queue.append(lambda ex, key=key: self.gen_sibling(ex, key))

    def _script_k8(self, opname, mode):
        """One op of the alphabet HAMMERED: what counters, thresholds, hit statistics, periodic clean-ups and caches
        that change representation when they grow need in order to show (nothing of the kind exists on the pinned
        tree; a change that adds one is otherwise only met by the rare long random run).
        mode "same": the same request 20-150 times (results dropped as a real caller would), neighbours in between;
        mode "many": 20-120 different requests of the op's family, then the earliest ones again.
        Then the usual disturb / re-ask rounds on the op."""
        r = self.rng
        fam = opname.split(".")[0]
        self.cfg["families"] = sorted(set(self.cfg["families"]) | {fam})
        self.cfg["p_invalid"] = 0.0 if mode == "same" else self.cfg["p_invalid"] * 0.3
        self.cfg["length"] = 0
        n = (self._job or {}).get("n") or r.choice([2, 3, 4])
        heavy = fam == "tomo"
        if heavy:
            n = min(n, 3)
        if fam == "layer":
            n = min(n, 5)
        self.cfg["ns"] = [n]
        self.cfg["conns"] = {n: r.sample(VALID[n], min(len(VALID[n]), r.choice([1, 2, 3])))}
        self.cfg["groups"] = {n: [Lt.random_group(r, n) for _ in range(r.choice([1, 2, 3, 6]))]}
        top = 30 if heavy else (60 if n >= 5 else 150)
        N = r.choice([r.randint(20, 34), r.randint(35, 70), r.randint(64, 130), r.randint(100, 150)])
        N = max(20, min(N, top))
        self.cfg["k8_n"] = N
        for pre_op in PREREQ.get(opname, []):
            self.queue.append(self._reach(pre_op))

        def drop(sid):
            return {"id": self._id(), "kind": "drop", "ref": sid}

        def edit_then_drop(sid):
            def go(ex2):
                # a caller that edits what it got before letting go: always when the simulator sees (white-box seam,
                # section 2.6) that a part of the result IS library state - e.g. the one call that promotes its result
                # into a memo - otherwise for one result in eight
                m = ex2.meta.get(sid)
                subs = [(path, kind, hint, al) for path, kind, al, hint in (m["subs"] if m else []) if kind != "tuple"]
                shared = [x[:3] for x in subs if x[3]]
                cands = shared or ([x[:3] for x in subs] if self.rng.random() < 0.12 else [])
                out = []
                if cands:
                    path, kind, hint = self.rng.choice(cands)
                    mut, params = self._draw_mutation(kind, hint, m, path)
                    if mut is not None:
                        out.append({"id": self._id(), "kind": "mutate", "target": {"ref": sid, "path": path},
                                    "mut": mut, "params": params})
                return out + [drop(sid)]
            return go

        def same(ex):
            steps = self._reach(opname)(ex)
            hit = [st for st in steps if st["kind"] == "call" and st["op"] == opname]
            if not hit:
                self.script_note = "unreachable"
                return []
            self.script_note = "reached"
            call = hit[-1]
            out = list(steps)
            nb_at = set(r.sample(range(1, N), min(3, N - 1)))
            last = call
            for k in range(1, N):
                again = dict(call)
                again["id"] = self._id()
                out.append(again)
                if k < N - 1:
                    out.append(edit_then_drop(again["id"]))
                if k in nb_at:
                    out += self._neighbour_calls(call)
                last = again
            def others_on_same_objects(ex2):
                # other requests about the very objects that were hammered (same stabilizer: its readout circuit, its
                # class, ...): a memo keyed coarser than one function's arguments shows on these
                q = []
                for A in call.get("args", [])[:2]:
                    if "ref" in A and not A.get("path") and A["ref"] in ex2.meta:
                        q += self.gen_consumers(ex2, A["ref"], 4)
                return q
            return out + [others_on_same_objects, self._after_call(last, rounds=2)]

        def many(ex):
            first = []
            out = []
            self.cfg["p_reuse"] = r.choice([0.0, 0.1, 0.3])     # many DIFFERENT requests
            for k in range(N):
                def one(ex2, k=k):
                    steps = (self._reach(opname, tries=60)(ex2) if self.rng.random() < 0.7 else []) or self.gen_call(ex2, fam)
                    calls = [st for st in steps if st["kind"] == "call"]
                    if calls and len(first) < 4:
                        first.append(calls[-1])
                    extra = [drop(c["id"]) for c in calls[-1:]] if len(first) >= 4 and self.rng.random() < 0.8 else []
                    return steps + extra
                out.append(one)

            def revisit(ex2):
                again = []
                for c in first:
                    a = dict(c)
                    a["id"] = self._id()
                    again.append(a)
                hit = [c for c in again if c["op"] == opname]
                self.script_note = "reached" if hit else "unreachable"
                return again + ([self._after_call(hit[-1], rounds=2)] if hit else [])
            return out + [revisit]
        self.queue.append(same if mode == "same" else many)

    def _script_k9(self, n, conn, preload, ids):
        """Entry sweep: the tables in `preload` (same qubit count; the target table among them or not) are loaded in the
        given order by one ordinary request each, then EVERY listed class id of the target table is looked up and its
        circuit parsed, each judged against the fresh interpreter. What a store shared between tables (templates pooled
        across connectivities, interned strings, 'last loaded wins' registries) needs in order to show: it goes wrong for
        a few entries only, after a particular load order - random requests practically never name those entries."""
        r = self.rng
        self.cfg.update({"ns": [n], "conns": {n: sorted(set(preload) | {conn})}, "p_invalid": 0.0, "length": 0})
        if n not in self.cfg["groups"]:
            self.cfg["groups"][n] = [Lt.random_group(r, n) for _ in range(2)]
        for c in preload:
            self.queue.append(lambda ex, c=c: self.gen_sibling(ex, f"stabilizer{n}-{c}"))
        for cid in ids:
            look = self._call("lookup.stabilizer_circuit_lookup", [self.lit(n), self.lit(conn), self.lit(cid)])
            parse = self._call("lookup.info_parse_circuit", [self.ref(look["id"])])
            self.queue += [look, parse, {"id": self._id(), "kind": "drop", "ref": parse["id"]},
                           {"id": self._id(), "kind": "drop", "ref": look["id"]}]
        self.script_note = "reached"

    def _script_k6(self, table, fault):
        """One table, cold; one fault at a chosen point of the call that loads it; then ask again (same
        call, then siblings on the same table) - for EVERY table, every run of the check."""
        kind = "mub" if table.startswith("mub") else "stabilizer"
        rest = table[len(kind):-4]
        n, conn = int(rest[0]), rest[2:]
        self.cfg.update({"ns": [n], "conns": {n: [conn]}, "p_invalid": 0.0, "length": 0})
        if n not in self.cfg["groups"]:
            self.cfg["groups"][n] = [Lt.random_group(self.rng, n) for _ in range(2)]
        self._force = (n, conn)
        self._force_sticky = True
        fam = self.rng.choice(["mub", "mub", "lookup", "tomo"] if kind == "mub" else ["prep", "prep", "lookup", "tomo"])
        if fault["kind"] == "read":
            arm = {"kind": "arm_read", "match": "next", "exc": fault["exc"]}
        else:
            arm = {"kind": "arm_intr", "scope": fault["scope"], "ordinal": None, "frac": fault["frac"], "exc": fault["exc"]}

        def faulted(ex):
            for _ in range(60):
                steps = self.gen_fault(ex, fault["kind"], fam=fam, arm=arm)
                calls = [s for s in steps if s["kind"] == "call"]
                if calls and _touches(calls[-1]["op"], kind):
                    if len(calls) < 2 or calls[-1]["op"] != calls[-2]["op"]:
                        again = dict(calls[-1])
                        again["id"] = self._id()
                        steps.append(again)
                    key = f"{kind}{n}-{conn}"
                    sib = []
                    for _ in range(2):
                        sib += self.gen_sibling(ex, key)
                    return steps + sib
            return []
        self.queue.append(faulted)

    # ------------------------------------------------------------------ main loop
    def next(self, ex):
        if self.batch in SCRIPTED:
            while self.queue and callable(self.queue[0]):
                f = self.queue.pop(0)
                self.queue[0:0] = f(ex)
            if not self.queue:
                return None
            self.emitted += 1
            return self.queue.pop(0)
        return self._next_random(ex)

    def _next_random(self, ex):
        while self.queue and callable(self.queue[0]):
            f = self.queue.pop(0)
            self.queue[0:0] = f(ex)
        if self.emitted >= self.cfg["length"] and not self.queue:
            return None
        if not self.queue:
            r = self.rng
            x = r.random()
            c = self.cfg
            steps = None
            if x < c["p_mutate"] * 0.35:
                steps = self.gen_triple(ex)
            elif x < c["p_mutate"]:
                steps = self.gen_mutation(ex)
            elif x < c["p_mutate"] + c["p_drop"]:
                if ex.meta:
                    steps = [{"id": self._id(), "kind": "drop", "ref": r.choice(list(ex.meta))}]
            elif x < c["p_mutate"] + c["p_drop"] + c["p_read"]:
                steps = self.gen_fault(ex, "read")
            elif x < c["p_mutate"] + c["p_drop"] + c["p_read"] + c["p_intr"]:
                steps = self.gen_fault(ex, "intr")
            if not steps:
                steps = self.gen_call(ex)
            self.queue.extend(steps)
        while self.queue and callable(self.queue[0]):
            f = self.queue.pop(0)
            self.queue[0:0] = f(ex)
        if not self.queue:
            return None
        self.emitted += 1
        return self.queue.pop(0)
