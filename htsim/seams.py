"""Seams the simulator owns. No source hook in /repo is needed for any of them.

* ReaderProxy      - replaces `htstabilizer.circuit_lookup.pkg_resources` (a module attribute) and can
                     fail the next matching table read (fault kind F3).
* Interrupter      - `sys.settrace` hook raising an asynchronous exception at the k-th line event of
                     library code during one call (fault kind F4); also used as a pure counter.
* library_state_ids - identities of objects reachable from library state (alias *guidance* only).
"""
import errno
import importlib
import os
import sys

import numpy as np

LIB = "htstabilizer"

READ_EXC = {
    "FileNotFoundError": lambda n: FileNotFoundError(errno.ENOENT, "No such file or directory (injected)", n),
    "PermissionError": lambda n: PermissionError(errno.EACCES, "Permission denied (injected)", n),
    "OSError": lambda n: OSError(errno.EIO, "Input/output error (injected)", n),
    "UnicodeDecodeError": lambda n: UnicodeDecodeError("utf-8", b"\xff", 0, 1, "invalid start byte (injected)"),
    "MemoryError": lambda n: MemoryError("injected"),
}
INTR_EXC = {
    "KeyboardInterrupt": lambda: KeyboardInterrupt(),
    "MemoryError": lambda: MemoryError("injected"),
}


class ReaderProxy:
    """Stands in for `importlib.resources` inside circuit_lookup: only `read_text` is used there."""

    def __init__(self, real):
        self._real = real
        self.armed = None          # (match, excname)
        self.fired = None          # filename the armed fault fired on
        self.log = []              # [(name, "served" | "raised X")]

    def read_text(self, package, name, *a, **k):
        if self.armed is not None:
            match, excname = self.armed
            if match == "next" or match == name:
                self.armed = None
                self.fired = name
                self.log.append((name, "raised " + excname))
                raise READ_EXC[excname](name)
        out = self._real.read_text(package, name, *a, **k)
        self.log.append((name, "served"))
        return out

    def __getattr__(self, k):  # anything else the module might use from importlib.resources
        return getattr(self._real, k)


def install_reader():
    cl = importlib.import_module(LIB + ".circuit_lookup")
    real = cl.pkg_resources
    if isinstance(real, ReaderProxy):
        return real
    proxy = ReaderProxy(real)
    cl.pkg_resources = proxy
    return proxy


def lib_dir():
    pkg = importlib.import_module(LIB)
    return os.path.dirname(os.path.abspath(pkg.__file__)) + os.sep


class Interrupter:
    """Counts `line` events in library frames during one call; optionally raises at one ordinal.

    scope: "any" or a library file basename (e.g. "circuit_lookup.py").
    The exception is raised at a line event of a *library* frame, before that line executes; never
    inside qiskit/numpy frames.
    """

    def __init__(self, scope="any", ordinal=None, excname="KeyboardInterrupt"):
        self.dir = lib_dir()
        self.scope = scope
        self.ordinal = ordinal
        self.excname = excname
        self.count = 0
        self.fired_at = None       # (file basename, lineno)
        self._codes = {}

    def _wanted(self, code):
        r = self._codes.get(code)
        if r is None:
            fn = code.co_filename
            r = fn.startswith(self.dir) and (self.scope == "any" or os.path.basename(fn) == self.scope)
            self._codes[code] = r
        return r

    def _global(self, frame, event, arg):
        if self._wanted(frame.f_code):
            return self._local
        return None

    def _local(self, frame, event, arg):
        if event == "line":
            self.count += 1
            if self.ordinal is not None and self.count == self.ordinal and self.fired_at is None:
                self.fired_at = (os.path.basename(frame.f_code.co_filename), frame.f_lineno)
                sys.settrace(None)
                raise INTR_EXC[self.excname]()
        return self._local

    def __enter__(self):
        sys.settrace(self._global)
        return self

    def __exit__(self, *a):
        sys.settrace(None)
        return False


# --------------------------------------------------------------------------- alias guidance

def _is_lib_type(t):
    m = getattr(t, "__module__", "") or ""
    return m == LIB or m.startswith(LIB + ".")


def library_state_ids():
    """ids of every object reachable from library state: module globals, class attributes, function
    defaults / closures / attributes / lru caches of every loaded htstabilizer.* module. Deterministic
    membership (no truncation, no dependence on traversal order). Guidance only - never an oracle."""
    import gc
    import types
    seen = set()
    stack = []

    def push(o):
        if o is None or isinstance(o, (bool, int, float, complex, str, bytes, types.ModuleType)):
            return
        i = id(o)
        if i in seen:
            return
        seen.add(i)
        stack.append(o)

    def push_function(f):
        for x in (f.__defaults__ or ()):
            push(x)
        for x in (f.__kwdefaults__ or {}).values():
            push(x)
        for c in (f.__closure__ or ()):
            try:
                push(c.cell_contents)
            except ValueError:
                pass
        for x in getattr(f, "__dict__", {}).values():
            push(x)

    for name, mod in list(sys.modules.items()):
        if mod is None or not (name == LIB or name.startswith(LIB + ".")):
            continue
        for v in list(vars(mod).values()):
            if isinstance(v, types.ModuleType):
                continue
            if isinstance(v, type):
                if _is_lib_type(v):
                    for cv in list(vars(v).values()):
                        if isinstance(cv, types.FunctionType):
                            push_function(cv)
                        elif isinstance(cv, (staticmethod, classmethod)):
                            push_function(cv.__func__)
                        elif not isinstance(cv, type):
                            push(cv)
                continue
            if isinstance(v, types.FunctionType):
                if (v.__module__ or "").startswith(LIB):
                    push_function(v)
                continue
            if hasattr(v, "cache_info") and hasattr(v, "__wrapped__"):
                for r in gc.get_referents(v):
                    push(r)
                w = v.__wrapped__
                if isinstance(w, types.FunctionType):
                    push_function(w)
                continue
            push(v)

    while stack:
        o = stack.pop()
        if isinstance(o, (list, tuple, set, frozenset)):
            for x in o:
                push(x)
        elif isinstance(o, dict):
            for k, v in o.items():
                push(k)
                push(v)
        elif isinstance(o, np.ndarray):
            if o.base is not None:
                push(o.base)
            if o.dtype == object:
                for x in o.ravel().tolist():
                    push(x)
        elif _is_lib_type(type(o)):
            d = getattr(o, "__dict__", None)
            if d:
                for v in d.values():
                    push(v)
            for klass in type(o).__mro__:
                sl = klass.__dict__.get("__slots__")
                if sl:
                    for s in ((sl,) if isinstance(sl, str) else sl):
                        try:
                            push(getattr(o, s))
                        except AttributeError:
                            pass
        else:
            md = getattr(o, "metadata", None) if type(o).__name__ == "QuantumCircuit" else None
            if isinstance(md, dict):
                push(md)
    return seen


# --------------------------------------------------------------------------- clock and randomness seams

class SimClock:
    """Virtual clock owned by the simulator. The pinned library never reads a clock; the seam exists so that a
    change which introduces one (TTL caches, time-stamped state) is explored deterministically instead of
    making runs irreproducible. Every `time.*` reader is replaced in the run child; reads coming from
    library frames are counted."""
    T0 = 1_700_000_000.0

    def __init__(self):
        import time as _t
        self.now = SimClock.T0
        self.reads_by_library = 0
        self._dir = None
        self._real = {k: getattr(_t, k) for k in ("time", "monotonic", "perf_counter", "time_ns", "monotonic_ns",
                                                  "perf_counter_ns")}

    def advance(self, dt):
        self.now += dt

    def _note(self):
        try:
            fn = sys._getframe(2).f_code.co_filename
            if self._dir is None:
                self._dir = lib_dir()
            if fn.startswith(self._dir):
                self.reads_by_library += 1
        except Exception:
            pass

    def install(self):
        import time as _t
        clock = self

        def f_time():
            clock._note()
            return clock.now

        def f_mono():
            clock._note()
            return clock.now - SimClock.T0

        def f_time_ns():
            clock._note()
            return int(clock.now * 1e9)

        def f_mono_ns():
            clock._note()
            return int((clock.now - SimClock.T0) * 1e9)
        _t.time = f_time
        _t.monotonic = f_mono
        _t.perf_counter = f_mono
        _t.time_ns = f_time_ns
        _t.monotonic_ns = f_mono_ns
        _t.perf_counter_ns = f_mono_ns
        return self


def pin_randomness():
    """Global RNGs start every process (run child, oracle child, fresh interpreter) in the same state, so that
    a library that consulted them would be a deterministic function of the HISTORY (and be caught by I1)
    instead of making runs irreproducible. The pinned library uses no randomness."""
    import random
    import numpy as np
    random.seed(0)
    np.random.seed(0)
