"""In-process stub of the measurement backend peer (the only stub in the simulation)."""


class FakeResult:
    """Duck-typed qiskit Result: get_counts() returns a dict or a list of dicts taken from the history."""

    def __init__(self, counts):
        self.counts = counts

    def get_counts(self, *a, **k):
        return self.counts
