"""One API call, evaluated and canonicalised - shared by the live run, the reference oracle (R1/R2)
and the triage control."""
from . import canon as C
from .ops import OPS, Lib

_IMMUTABLE_SCALARS = (type(None), bool, int, float, complex, str, bytes)


class HarnessError(Exception):
    """Anything that is the simulator's fault. Never reported as a violation."""


def invoke(spec, L, args, kw):
    """-> ("ok", value) | ("exc", exception). Asynchronous exceptions injected by the simulator
    (KeyboardInterrupt, MemoryError) are outcomes like any other."""
    try:
        return "ok", spec.fn(L, *args, **kw)
    except HarnessError:
        raise
    except SystemExit:
        raise
    except BaseException as e:  # noqa: B902 - deliberate, see docstring
        return "exc", e


def same_map(values):
    """{j: i} for argument positions holding the very same (mutable) object, i < j."""
    out = {}
    for j in range(len(values)):
        if isinstance(values[j], _IMMUTABLE_SCALARS):
            continue
        for i in range(j):
            if values[i] is values[j]:
                out[j] = i
                break
    return out


def outcome_canon(kind, value, arg_values):
    alias = None
    if kind == "ok" and not isinstance(value, _IMMUTABLE_SCALARS):
        for i, a in enumerate(arg_values):
            if a is value:
                alias = i
                break
    return {"k": kind, "v": C.canon(value), "alias": alias}


def evaluate(req, L=None):
    """Reference evaluation of one request in the *current* process state (the caller decides what
    that state is: pristine fork for R1, fresh interpreter for R2, forked live state for triage).

    req = {"op": name, "args": [canon...], "kw": [[k, canon]...], "same": {"j": i}}
    """
    L = L or Lib()
    spec = OPS[req["op"]]
    if req.get("fresh_process", True):
        from . import seams
        seams.pin_randomness()
        if not getattr(seams, "_clock", None):
            seams._clock = seams.SimClock().install()
    try:
        vals = [C.rebuild(c) for c in req["args"]] + [C.rebuild(c) for _, c in req["kw"]]
    except C.Unrebuildable as e:
        return {"unrebuildable": str(e)}
    for j, i in (req.get("same") or {}).items():
        vals[int(j)] = vals[int(i)]
    npos = len(req["args"])
    args = vals[:npos]
    kw = {k: vals[npos + n] for n, (k, _) in enumerate(req["kw"])}
    pre = [C.canon(v) for v in vals]
    roundtrip_ok = pre == (list(req["args"]) + [c for _, c in req["kw"]])
    kind, value = invoke(spec, L, args, kw)
    out = outcome_canon(kind, value, vals)
    post = [C.canon(v) for v in vals]
    return {"out": out, "post": post, "roundtrip_ok": roundtrip_ok, "pre": None if roundtrip_ok else pre}
