"""./check entry point: batches K0-K4 of seeded histories, reference sampling (R2/R3), determinism
self-test, minimisation, replay files, known findings, evidence (DESIGN 2.10-2.13, 6)."""
import argparse
import atexit
import concurrent.futures as cf
import faulthandler
import hashlib
import json
import multiprocessing
import os
import shutil
import subprocess
import sys
import tempfile
import time

from . import pristine
from .generator import splitmix64, NCLASSES
from .ops import OPS

VERIF = os.path.dirname(os.path.dirname(os.path.abspath(__file__)))
PROPERTY = "C13"


def evidence_dir():
    return os.environ.get("HTSIM_EVIDENCE_DIR") or os.path.join(VERIF, "evidence")


def replay_dir():
    return os.environ.get("HTSIM_REPLAY_DIR") or os.path.join(VERIF, "replays")
BATCHES = ["K0", "K1", "K2", "K3", "K4", "K5", "K6", "K7", "K8", "K9"]
TABLES = {2: ["all"], 3: ["all", "linear"], 4: ["all", "linear", "star", "cycle"],
          5: ["all", "linear", "star", "cycle", "T", "Q"], 6: ["all", "linear", "star", "ladder", "E", "H", "Q"]}
READ_EXCS = ["FileNotFoundError", "PermissionError", "OSError", "UnicodeDecodeError", "MemoryError"]
BATCH_DOC = {
    "K0": "plain call sequences (cold/warm/order effects only)",
    "K1": "mutating caller (F1 returned-object mutation, F2 re-presentation/drop, F6 failing requests)",
    "K2": "transient table-read failures (F3) on top of K1",
    "K3": "asynchronous exceptions at library line events (F4) on top of K1",
    "K4": "everything together",
    "K5": "scripted per-op templates: for EVERY op of the alphabet - warm-up, call, (mutate its result, ask again) x2",
    "K7": "scripted table tours: 9-20 distinct tables in one process with re-visits of recent and old ones, all judged",
    "K8": "scripted hammer: ops of the alphabet in turn - the same request 20-150 times, or 20-120 different requests of its "
          "family and then the earliest again - then disturb / re-ask (counters, thresholds, periodic clean-ups, growing caches)",
    "K9": "scripted entry sweeps: other stabilizer tables of the same qubit count loaded first (one other before / after the "
          "target, or all in a seeded order), then class ids of the target table looked up and parsed one by one, all judged",
    "K6": "scripted per-table fault sweep: for EVERY shipped table, cold - read failure of each kind / interrupt at "
          "seeded points of the load incl. the last line event - then ask again and ask siblings",
}
PLAN = {
    # runs per batch; R2 keys per hash seed; R3 replays; determinism seeds; soft wall cap (s)
    # K5: repetitions per op; K6: (read faults per table, interrupts per table)
    "quick": {"runs": {"K0": 80, "K1": 200, "K2": 100, "K3": 100, "K4": 120}, "k5_reps": 3, "k6": (2, 4), "k7": 16, "k8": 58, "k9": (1, 64),
              "r2": 48, "r2_single": 3, "r3": 12, "det": 20, "cap": 420},
    "thorough": {"runs": {"K0": 3000, "K1": 9000, "K2": 5000, "K3": 5000, "K4": 6000}, "k5_reps": 40, "k6": (5, 60), "k7": 600, "k8": 1160, "k9": (14, 96),
                 "r2": 600, "r2_single": 24, "r3": 200, "det": 64, "cap": 3300},
}
CHUNK = 4
K8_WINDOW = 24
R2_MOD = 8
# cheap ops whose templates are worth repeating: per-argument state that a failing neighbour call can leave half built
K5_EXTRA = {"tomo.CircuitResult", "lookup.parse_circuit", "lookup.MUBInfo", "stab.new", "prep.compress_preparation_circuit"}
MINIMISE_WALL_S = 75     # per violation class; a longer replay file is still a valid replay file

PROJ_KEYS = ("id", "kind", "op", "pre", "out", "outkind", "faulted", "tag", "reads", "applied", "changed",
             "skipped", "read_fault_fired", "intr_fired_at", "intr_ordinal", "intr_total", "lines", "error")


class Harness(Exception):
    pass


# =========================================================================== worker side

_W = {"r2": [], "seen": set()}


def _worker_init():
    faulthandler.enable()


def audit_task():
    from . import worker
    return worker.run_job({"mode": "audit"})


def worker_task(jobs):
    """Runs in a pool worker (a fork of the pristine driver)."""
    from . import worker
    before = dict(worker.ORACLE_STATS)
    _hook_r2_sampling(worker)
    out = []
    for job in jobs:
        t0 = time.time()
        rep = worker.run_job(job)
        rep["wall"] = time.time() - t0
        keep = job.get("keep") or rep.get("violations") or rep.get("harness_error")
        if not keep:
            rep.pop("steps", None)
            rep.pop("events", None)
        out.append(rep)
    delta = {k: worker.ORACLE_STATS[k] - before.get(k, 0) for k in worker.ORACLE_STATS}
    r2 = _W["r2"]
    _W["r2"] = []
    return {"reports": out, "oracle": delta, "r2_samples": r2, "pid": os.getpid()}


def _hook_r2_sampling(worker):
    """Deterministic sample (by key hash) of the reference evaluations this worker performed."""
    if getattr(worker, "_r2_hooked", False):
        return
    worker._r2_hooked = True
    orig = worker.oracle_eval_fresh_fork

    def wrapped(req):
        resp = orig(req)
        key = hashlib.sha256(json.dumps(req, separators=(",", ":")).encode()).hexdigest()
        if int(key[:6], 16) % R2_MOD == 0 and key not in _W["seen"] and "unrebuildable" not in resp:
            blob = json.dumps(req)
            if len(blob) < 60000:
                _W["seen"].add(key)
                _W["r2"].append({"key": key, "req": req, "out": resp["out"], "post": resp["post"]})
        return resp
    worker.oracle_eval_fresh_fork = wrapped


# =========================================================================== helpers

def run_seed(verif_seed, tier, batch, i):
    return splitmix64(verif_seed, tier, batch, i) & 0x7FFFFFFFFFFFFFFF


def project(events):
    return [{k: e[k] for k in PROJ_KEYS if k in e} for e in events]


def vclass(v):
    return (v["invariant"], v["op"])


def repo_state():
    src = pristine.src_dir()
    h = hashlib.sha256()
    for root, dirs, files in sorted(os.walk(os.path.join(src, "htstabilizer"))):
        dirs.sort()
        if "__pycache__" in root:
            continue
        for f in sorted(files):
            if f.endswith((".py", ".txt")):
                h.update(f.encode())
                with open(os.path.join(root, f), "rb") as fh:
                    h.update(fh.read())
    try:
        head = subprocess.run(["git", "-C", os.path.dirname(src), "rev-parse", "HEAD"], capture_output=True,
                              text=True, timeout=20).stdout.strip()
    except Exception:
        head = ""
    return {"src": src, "src_digest": h.hexdigest()[:20], "git_head": head}


def load_known():
    p = os.environ.get("HTSIM_KNOWN_FILE") or os.path.join(VERIF, "known_findings.json")
    if not os.path.exists(p):
        return {"known": [], "fixed": []}
    with open(p) as f:
        return json.load(f)


def match_known(v, known):
    """A known finding matches on invariant + failing op + (optionally) the producer/mutation shape."""
    for k in known.get("known", []):
        m = k.get("match", {})
        if m.get("invariant") == v["invariant"] and m.get("op") == v["op"]:
            need = m.get("detail_contains")
            if need and need not in json.dumps(v.get("detail", {})):
                continue
            return k
    return None


def build_decoy_cwd(base):
    """A working directory for some of the fresh interpreters that contains files NAMED like the shipped tables
    but holding ANOTHER table's text (also under ./data/): a library that consults the current directory - or a
    relative path - at any point answers differently there than in an empty directory ('a different process')."""
    src = os.path.join(pristine.src_dir(), "htstabilizer", "data")
    d = os.path.join(base, "decoy-cwd")
    os.makedirs(os.path.join(d, "data"), exist_ok=True)
    names = sorted(f for f in os.listdir(src) if f.endswith(".txt"))
    for kind in ("stabilizer", "mub"):
        group = [f for f in names if f.startswith(kind)]
        for i, f in enumerate(group):
            n = f[len(kind)]
            same_n = [g for g in group if g[len(kind)] == n and g != f]
            other = same_n[i % len(same_n)] if same_n else group[(i + 1) % len(group)]
            with open(os.path.join(src, other)) as fh:
                text = fh.read()
            for sub in ("", "data"):
                with open(os.path.join(d, sub, f), "w") as out:
                    out.write(text)
    return d


class Scratch:
    def __init__(self):
        base = os.path.join(VERIF, "scratch")
        os.makedirs(base, exist_ok=True)
        self.dir = tempfile.mkdtemp(prefix="run-", dir=base)
        atexit.register(self.cleanup)

    def cleanup(self):
        shutil.rmtree(self.dir, ignore_errors=True)


# =========================================================================== the check

class Check:
    def __init__(self, tier, seed, nworkers=None, runs_scale=1.0, out=sys.stdout):
        self.tier = tier
        self.seed = seed
        self.plan = PLAN[tier]
        self.nworkers = nworkers or min(16, os.cpu_count() or 4)
        self.scale = runs_scale
        self.t0 = time.time()
        self.out = out
        self.harness_errors = []
        self.agg = {"stats": {}, "oracle": {"r1_miss": 0, "r1_hit": 0, "r1_unrebuildable": 0}, "runs": 0,
                    "steps": 0, "histories": set(), "nontrivial": set(), "states": set(), "transitions": set(),
                    "intr_sites": set(), "by_batch": {b: {"runs": 0, "nontrivial": 0, "violations": 0} for b in BATCHES},
                    "timeouts": 0, "opaque": 0, "warm_files": set(), "wall_runs": 0.0}
        self.samples = []
        self.kept = {}            # (batch, i) -> report with steps/events (for R3 / determinism)
        self.violating = []       # reports
        self.r2_samples = []
        self.truncated = False

    def log(self, *a):
        print(*a, file=self.out, flush=True)

    # ---------------------------------------------------------------- batches
    def jobs(self):
        import random
        out = []
        for b in BATCHES[:5]:
            n = max(4, int(self.plan["runs"][b] * self.scale))
            for i in range(n):
                out.append({"mode": "generate", "batch": b, "i": i, "tier": self.tier,
                            "seed": run_seed(self.seed, self.tier, b, i), "keep": i < 8, "want_events": True})
        # K5: every op of the alphabet
        reps = max(1, int(round(self.plan["k5_reps"] * self.scale)))
        i = 0
        for rep in range(reps):
            for k, opname in enumerate(sorted(OPS)):
                # qubit counts are cycled so that every op meets small AND large systems in every run of the check
                # (some channels exist for 6 qubits only: S04); rep 0: 2-4, rep 1: 5/6, rep 2: 6, then all five in turn
                n = [2, 3, 4][(k + self.seed) % 3] if rep == 0 else ([5, 6][(k + self.seed) % 2] if rep == 1 else
                                                                      (6 if rep == 2 else 2 + (k + rep + self.seed) % 5))
                # ops with a documented in-place effect get three templates per repetition: they are the ones that
                # must invalidate whatever an object memoises about itself
                for extra in range(3 if (OPS[opname].inplace or opname in K5_EXTRA) else 1):
                    out.append({"mode": "generate", "batch": "K5", "i": i, "tier": self.tier, "op": opname,
                                "n": n if extra == 0 else 2 + (k + rep + extra + self.seed) % 5,
                                "seed": run_seed(self.seed, self.tier, "K5", i), "keep": i < 4, "want_events": True})
                    i += 1
        # K6: every shipped table x faults at seeded points
        nread, nintr = self.plan["k6"]
        nread = max(1, int(round(nread * self.scale)))
        nintr = max(1, int(round(nintr * self.scale)))
        i = 0
        for kind in ("stabilizer", "mub"):
            for n, conns in TABLES.items():
                for c in conns:
                    rr = random.Random(run_seed(self.seed, self.tier, "K6t", i))
                    faults = [{"kind": "read", "exc": e} for e in rr.sample(READ_EXCS, min(nread, len(READ_EXCS)))]
                    for k in range(nintr):
                        frac = 0.999999 if k == 0 else (rr.uniform(0.9, 1.0) if k == 1 else rr.random())
                        faults.append({"kind": "intr", "scope": "circuit_lookup.py" if k % 3 != 2 else "any", "frac": frac,
                                       "exc": "KeyboardInterrupt" if k % 2 == 0 else "MemoryError"})
                    for f in faults:
                        out.append({"mode": "generate", "batch": "K6", "i": i, "tier": self.tier,
                                    "table": f"{kind}{n}-{c}.txt", "fault": f,
                                    "seed": run_seed(self.seed, self.tier, "K6", i), "keep": i < 4, "want_events": True})
                        i += 1
        for i in range(max(1, int(round(self.plan["k7"] * self.scale)))):
            out.append({"mode": "generate", "batch": "K7", "i": i, "tier": self.tier,
                        "seed": run_seed(self.seed, self.tier, "K7", i), "keep": i < 4, "want_events": True})
        # K8: the ops that sit on the shipped tables / module-level state are hammered in EVERY run of the check (both
        # modes); the rest of the alphabet in turn (the window moves with the seed), alternately "same" / "many"
        names = sorted(OPS)
        core = [o for o in names if o.split(".")[0] in ("prep", "mub", "lookup", "conn")]
        rest = [o for o in names if o not in core]
        total = max(2, int(round(self.plan["k8"] * self.scale)))
        for i in range(total):
            lap, k = divmod(i, 2 * len(core) + K8_WINDOW)
            if k < 2 * len(core):
                opname, kmode = core[k // 2], ("same" if k % 2 == 0 else "many")
            else:
                j = (k - 2 * len(core)) + K8_WINDOW * (lap + self.seed)
                opname, kmode = rest[j % len(rest)], ("same" if (j // len(rest) + j) % 2 == 0 else "many")
            out.append({"mode": "generate", "batch": "K8", "i": i, "tier": self.tier, "op": opname,
                        "n": 2 + (i + lap + self.seed) % 5, "kmode": kmode,
                        "seed": run_seed(self.seed, self.tier, "K8", i), "keep": i < 4, "want_events": True})
        # K9: every stabilizer table x chunks of its class ids; laps repeat the sweep with other load orders
        laps, chunk = self.plan["k9"]
        laps = max(1, int(round(laps * self.scale)))
        i = 0
        for lap in range(laps):
            for n, conns in TABLES.items():
                if n not in NCLASSES:
                    continue
                for t, c in enumerate(conns):
                    others = [x for x in conns if x != c]
                    ids_all = list(range(NCLASSES[n]))
                    for k, lo in enumerate(range(0, len(ids_all), chunk)):
                        if self.tier == "quick" and n == 6 and (k + t + self.seed) % 3 != 0:
                            continue        # quick: a third of the 6-qubit chunks per run of the check (moves with the seed)
                        rr = random.Random(run_seed(self.seed, self.tier, "K9o", i))
                        if not others:
                            preload = [c] if rr.random() < 0.5 else []
                        else:
                            x = rr.choice(others)
                            style = rr.randrange(3)
                            if style == 0:
                                preload = [c, x]                 # target first, ONE other last ("last loaded wins")
                            elif style == 1:
                                preload = [x, c] if rr.random() < 0.5 else [x]      # other first ("first loaded wins")
                            else:
                                preload = rr.sample(conns, len(conns))             # all of them in a seeded order
                        out.append({"mode": "generate", "batch": "K9", "i": i, "tier": self.tier, "n": n, "conn": c,
                                    "preload": preload, "ids": ids_all[lo:lo + chunk],
                                    "seed": run_seed(self.seed, self.tier, "K9", i), "keep": i < 4, "want_events": True})
                        i += 1
        # interleave batches so that a truncated run still covers all of them; the potentially long templates
        # (5/6 qubits) go first so that they do not form a tail
        out.sort(key=lambda j: (0 if (j["batch"] in ("K7", "K8", "K9") or (j["batch"] == "K5" and j.get("n", 0) >= 5)) else 1, j["i"], j["batch"]))
        return out

    def run_batches(self, pool):
        jobs = self.jobs()
        chunks = [jobs[i:i + CHUNK] for i in range(0, len(jobs), CHUNK)]
        futs = {pool.submit(worker_task, c): c for c in chunks}
        cap = self.plan["cap"]
        pending = set(futs)
        while pending:
            done, pending = cf.wait(pending, timeout=5, return_when=cf.FIRST_COMPLETED)
            for f in done:
                self._absorb(f.result())
            if time.time() - self.t0 > cap and pending:
                n = 0
                for f in list(pending):
                    if f.cancel():
                        pending.discard(f)
                        n += 1
                if n:
                    self.truncated = True
                    self.log(f"NOTE soft wall cap {cap}s reached: {n} chunks not started")
                cap = float("inf")

    def _absorb(self, res):
        for k, v in res["oracle"].items():
            self.agg["oracle"][k] += v
        self.r2_samples.extend(res["r2_samples"])
        for rep in res["reports"]:
            job = rep["job"]
            b = job["batch"]
            if "harness_error" in rep:
                if rep.get("timeout"):
                    self.agg["timeouts"] += 1
                self.harness_errors.append({"job": job, "error": rep["harness_error"]})
                continue
            a = self.agg
            a["runs"] += 1
            a["wall_runs"] += rep.get("wall", 0)
            a["by_batch"][b]["runs"] += 1
            for k, v in rep["stats"].items():
                a["stats"][k] = a["stats"].get(k, 0) + v
            a["steps"] += sum(1 for _ in rep.get("events") or []) if rep.get("events") is not None else 0
            a["histories"].add(rep["history_digest"])
            if rep["nontrivial"]:
                a["nontrivial"].add(rep["history_digest"])
                a["by_batch"][b]["nontrivial"] += 1
            a["states"].update(rep["states"])
            a["transitions"].update(rep["transitions"])
            a["intr_sites"].update(tuple(s) for s in rep["intr_sites"])
            a["opaque"] += rep.get("opaque", 0)
            if rep.get("generator_error"):
                a.setdefault("generator_errors", []).append({"job": {k: job.get(k) for k in ("batch", "i", "seed")},
                                                             "error": rep["generator_error"][-600:]})
            a["files_written"] = a.get("files_written", 0) + rep.get("files_written", 0)
            a["sim_time"] = a.get("sim_time", 0.0) + rep.get("sim_time", 0.0)
            a["clock_reads"] = a.get("clock_reads", 0) + rep.get("clock_reads_by_library", 0)
            a["warm_files"].update(rep.get("warm", []))
            if rep["violations"]:
                a["by_batch"][b]["violations"] += 1
                self.violating.append(rep)
            if rep.get("script_note"):
                pfx = "k8_" if b == "K8" else "k5_"
                a["stats"][pfx + rep["script_note"]] = a["stats"].get(pfx + rep["script_note"], 0) + 1
                if rep["script_note"] == "unreachable":
                    a.setdefault(pfx + "unreachable_ops", set()).add(job.get("op"))
            if b == "K8":
                a["stats"]["k8_repeats"] = a["stats"].get("k8_repeats", 0) + ((rep.get("config") or {}).get("k8_n") or 0)
                a["stats"]["k8_longest"] = max(a["stats"].get("k8_longest", 0), (rep.get("config") or {}).get("k8_n") or 0)
            if job.get("keep") and rep.get("steps") is not None:
                self.kept[(b, job["i"])] = rep

    # ---------------------------------------------------------------- R2 / R3 / determinism
    def reference_sampling(self, scratch):
        res = {"r2_keys": 0, "r2_agree": 0, "r2_process_dependent": [], "r2_proxy_wrong": [],
               "r2_single": 0, "r2_single_agree": 0,
               "r3_replays": 0, "r3_agree": 0, "r3_diverged": [], "interpreters": []}
        samples = sorted(self.r2_samples, key=lambda s: s["key"])[: self.plan["r2"]]
        env_pyc = scratch.dir
        os.environ["HTSIM_PYC"] = env_pyc
        from . import fresh
        procs = []
        half = [samples[0::2], samples[1::2]]
        decoy = build_decoy_cwd(scratch.dir)
        seeds = [(101, "/", "C"), (2024, decoy, "POSIX")]
        # R2: every sampled key under TWO other hash seeds
        for hs, cwd, lc in seeds:
            for part in half:
                if part:
                    procs.append(("eval", hs, part,
                                  fresh.launch({"mode": "eval", "reqs": [s["req"] for s in part]}, hs, VERIF, cwd, lc)))
        # R2-single: the real thing - one request per brand-new interpreter, no fork in between
        singles = samples[: self.plan["r2_single"]]
        own_hs = os.environ.get("PYTHONHASHSEED", "0")   # same hash seed as the pristine fork: isolates "fork vs fresh"
        for n, s in enumerate(singles):
            procs.append(("single", own_hs, [s], fresh.launch({"mode": "single", "req": s["req"]}, own_hs, VERIF, "/", "C")))
        # R3: fault-free and faulted histories replayed whole, unjudged, in another process
        r3 = []
        for (i, b), rep in sorted(((i, b), rep) for (b, i), rep in self.kept.items()):   # round-robin over the batches
            if len(r3) >= self.plan["r3"]:
                break
            if rep.get("events") is None or rep["violations"]:
                continue
            r3.append(rep)
        if r3:
            jobs = [{"mode": "replay", "steps": rep["steps"], "judge": False, "batch": rep["job"]["batch"],
                     "i": rep["job"]["i"], "want_events": True} for rep in r3]
            for k, (hs, cwd, lc) in enumerate(seeds):
                part = jobs[k::2]
                if part:
                    procs.append(("replay", hs, part, fresh.launch({"mode": "replay", "jobs": part}, hs, VERIF, cwd, lc)))
        by_key = {}
        for kind, hs, part, p in procs:
            try:
                doc = fresh.collect(p)
            except Exception as e:
                self.harness_errors.append({"job": {"r": kind, "hashseed": hs}, "error": str(e)})
                continue
            res["interpreters"].append(doc["meta"])
            if kind == "eval":
                for s, r in zip(part, doc["out"]):
                    by_key.setdefault(s["key"], {"r1": s})[hs] = r
            elif kind == "single":
                res["r2_single"] += 1
                r, s = doc["out"], part[0]
                if r.get("out") == s["out"] and r.get("post") == s["post"]:
                    res["r2_single_agree"] += 1
                else:
                    res["r2_proxy_wrong"].append({"key": s["key"], "op": s["req"]["op"], "how": "single"})
            else:
                orig = {(rep["job"]["batch"], rep["job"]["i"]): rep for rep in r3}
                for rr in doc["out"]:
                    res["r3_replays"] += 1
                    o = orig[(rr["job"]["batch"], rr["job"]["i"])]
                    if "harness_error" in rr:
                        self.harness_errors.append({"job": rr["job"], "error": rr["harness_error"]})
                        continue
                    pa, pb = project(o["events"]), project(rr["events"])
                    if pa == pb:
                        res["r3_agree"] += 1
                    else:
                        idx = next((n for n, (x, y) in enumerate(zip(pa, pb)) if x != y), min(len(pa), len(pb)))
                        x = pa[idx] if idx < len(pa) else None
                        y = pb[idx] if idx < len(pb) else None
                        desc_same = x is not None and y is not None and all(
                            x.get(k) == y.get(k) for k in ("id", "kind", "op", "pre"))
                        res["r3_diverged"].append({"batch": rr["job"]["batch"], "i": rr["job"]["i"], "at": idx,
                                                   "descriptor_same": desc_same, "a": x, "b": y, "hashseed": hs})
        for key, d in sorted(by_key.items()):
            s = d["r1"]
            others = [d[h] for h in d if h != "r1"]
            if len(others) < 2:
                continue
            res["r2_keys"] += 1
            a, b = others[0], others[1]
            sig = lambda r: (r.get("out"), r.get("post"))  # noqa: E731
            if sig(a) != sig(b):
                res["r2_process_dependent"].append({"key": key, "req": s["req"], "a": a.get("out"), "b": b.get("out")})
            elif sig(a) != (s["out"], s["post"]):
                # two other hash seeds agree with each other but not with the pristine fork (which runs under
                # the driver's hash seed): a truly fresh interpreter under the DRIVER's hash seed decides whether
                # the library is hash-seed dependent (violation) or the fork proxy is wrong (harness error)
                try:
                    own = fresh.collect(fresh.launch({"mode": "single", "req": s["req"]},
                                                     os.environ.get("PYTHONHASHSEED", "0"), VERIF, "/", "C"))["out"]
                except Exception as e:
                    own = {"error": str(e)}
                if sig(own) == (s["out"], s["post"]):
                    res["r2_process_dependent"].append({"key": key, "req": s["req"], "a": a.get("out"), "b": s["out"]})
                else:
                    res["r2_proxy_wrong"].append({"key": key, "op": s["req"]["op"], "how": "eval"})
            else:
                res["r2_agree"] += 1
        return res

    def determinism(self, pool, scratch):
        """Same run seed -> same event log: again in the pool (usually another worker) and in a fresh
        interpreter under another PYTHONHASHSEED (generator included)."""
        n = self.plan["det"]
        base = [rep for (i, b), rep in sorted(((i, b), rep) for (b, i), rep in self.kept.items())
                if not rep["violations"]][:n]
        res = {"seeds": len(base), "pool_rerun_equal": 0, "fresh_interpreter_equal": 0, "mismatches": []}
        if not base:
            return res
        jobs = []
        for rep in base:
            j = dict(rep["job"])
            j["keep"] = True
            jobs.append(j)
        futs = [pool.submit(worker_task, [j]) for j in jobs]
        from . import fresh
        # the fresh interpreters are started TWICE over the same HOME / cache / temp directory (their run children
        # keep that HOME): the second start is "a process that finds what an earlier process left on disk" -
        # restart with only durable state surviving. Both must reproduce the original event log.
        import tempfile
        homes = [tempfile.mkdtemp(prefix="home-restart-", dir=scratch.dir) for _ in range(2)]
        jobs2 = [dict(j, keep_home=True) for j in jobs]
        procs = []
        for round_no in range(2):
            started = [fresh.launch({"mode": "generate", "jobs": jobs2[k::2]}, 31337 + k, VERIF, "/", "C", home=homes[k])
                       for k in range(2) if jobs2[k::2]]
            if round_no == 0:
                for p in started:       # the first generation of processes must be gone before the second starts
                    try:
                        p._htsim_doc = fresh.collect(p)
                    except Exception as e:
                        p._htsim_doc = e
            procs.extend(started)
        res["restart_rounds"] = 2
        want = {(r["job"]["batch"], r["job"]["i"]): (r["history_digest"], r["log_digest"]) for r in base}
        for f in futs:
            for rr in f.result()["reports"]:
                k = (rr["job"]["batch"], rr["job"]["i"])
                if "harness_error" in rr:
                    self.harness_errors.append({"job": rr["job"], "error": rr["harness_error"]})
                elif (rr["history_digest"], rr["log_digest"]) == want[k]:
                    res["pool_rerun_equal"] += 1
                else:
                    res["mismatches"].append({"where": "pool", "job": rr["job"]})
        byk = {(r["job"]["batch"], r["job"]["i"]): r for r in base}
        res["process_dependent"] = []
        res["fresh_interpreter_runs"] = 0
        for p in procs:
            try:
                doc = getattr(p, "_htsim_doc", None)
                if doc is None:
                    doc = fresh.collect(p)
                if isinstance(doc, Exception):
                    raise doc
            except Exception as e:
                self.harness_errors.append({"job": {"r": "determinism"}, "error": str(e)})
                continue
            for rr in doc["out"]:
                k = (rr["job"]["batch"], rr["job"]["i"])
                res["fresh_interpreter_runs"] += 1
                if "harness_error" in rr:
                    self.harness_errors.append({"job": rr["job"], "error": rr["harness_error"]})
                elif (rr["history_digest"], rr["log_digest"]) == want[k]:
                    res["fresh_interpreter_equal"] += 1
                else:
                    # same seed, other process, other hash seed: where do the two logs part?  Same step
                    # descriptor but another outcome => the LIBRARY's result depends on the process (I3);
                    # a differing descriptor first => the harness is not deterministic.
                    pa, pb = project(byk[k]["events"] or []), project(rr.get("events") or [])
                    idx = next((n for n, (x, y) in enumerate(zip(pa, pb)) if x != y), min(len(pa), len(pb)))
                    x = pa[idx] if idx < len(pa) else None
                    y = pb[idx] if idx < len(pb) else None
                    same_desc = x is not None and y is not None and all(x.get(q) == y.get(q) for q in ("id", "kind", "op", "pre"))
                    d = {"where": "fresh-interpreter", "job": rr["job"], "at": idx, "a": x, "b": y,
                         "batch": k[0], "i": k[1], "descriptor_same": same_desc}
                    if same_desc and x.get("kind") == "call":
                        res["process_dependent"].append(d)
                    else:
                        res["mismatches"].append(d)
        return res

    # ---------------------------------------------------------------- violations
    def handle_violations(self, extra):
        """Minimise one history per violation class, write replay files, print VIOLATION / KNOWN-FINDING."""
        known = load_known()
        os.makedirs(replay_dir(), exist_ok=True)
        classes = {}
        for rep in self.violating:
            for v in rep["violations"]:
                classes.setdefault(vclass(v), []).append((rep, v))
        lines, new, kn = [], 0, 0
        state = repo_state()
        for cls, items in sorted(classes.items()):
            items.sort(key=lambda rv: len(rv[0]["steps"]))
            rep, v = items[0]
            k = match_known(v, known)
            if k is not None:
                kn += 1
                lines.append(f"KNOWN-FINDING: property={PROPERTY} {k['text']}")
                continue
            new += 1
            if new > 6:
                continue
            path = write_replay(rep, v, self.seed, self.tier, state, len(items), minimise_it=True, log=self.log)
            lines.append(f"VIOLATION property={PROPERTY} replay={path}")
        for n, x in enumerate(extra):
            new += 1
            rep = {"steps": x.get("steps", []), "job": {"batch": "R", "i": n, "seed": 0}, "config": None}
            x["violation"]["i3_mode"] = "single" if len(rep["steps"]) == 1 and all(
                "lit" in a for a in rep["steps"][0].get("args", [])) else "history"
            path = write_replay(rep, x["violation"], self.seed, self.tier, state, 1, minimise_it=False, log=self.log)
            lines.append(f"VIOLATION property={PROPERTY} replay={path}")
        return lines, new, kn


def replay_fails(steps, cls):
    """Run a candidate history in a fresh fork of this pristine process; does a violation of class
    `cls` occur?"""
    from . import worker
    rep = worker.run_job({"mode": "replay", "steps": steps, "judge": True, "want_events": False})
    if "harness_error" in rep:
        return False
    return any(vclass(v) == cls for v in rep["violations"])


def write_replay(rep, v, seed, tier, state, count, minimise_it, log):
    from . import minimise, worker
    steps = rep["steps"]
    cls = vclass(v)
    info = {"original_steps": len(steps), "minimiser_tests": 0}
    if minimise_it and steps:
        # record argument values at call time (for literalisation), then ddmin + simplification
        rec = worker.run_job({"mode": "replay", "steps": steps, "judge": True, "record_args": True, "want_events": True})
        lits = {}
        if "harness_error" not in rec:
            for e in rec["events"]:
                for n, c in enumerate(e.get("pre_canon") or []):
                    lits[(e["id"], n)] = c
        # cut everything after the failing step first
        upto = next((n for n, s in enumerate(steps) if s["id"] == v["step"]), len(steps) - 1)
        cur = steps[: upto + 1]
        if not replay_fails(cur, cls):
            cur = steps
        deadline = time.time() + MINIMISE_WALL_S
        cur, t1 = minimise.ddmin(cur, lambda c: time.time() < deadline and replay_fails(c, cls), lits)
        cur, t2 = minimise.simplify(cur, lambda c: replay_fails(c, cls))
        info["minimiser_tests"] = t1 + t2
        final = worker.run_job({"mode": "replay", "steps": cur, "judge": True, "want_events": True})
        vv = [x for x in final.get("violations", []) if vclass(x) == cls]
        if vv:
            steps, v = cur, vv[0]
    name = f"{PROPERTY}-{seed}-{rep['job'].get('batch')}{rep['job'].get('i')}-{cls[0]}-{cls[1].replace('.', '_')}.json"
    path = os.path.join(replay_dir(), name)
    doc = {"format": 1, "property": PROPERTY, "verif_seed": seed, "tier": tier, "run_seed": rep["job"].get("seed"),
           "batch": rep["job"].get("batch"), "run_index": rep["job"].get("i"), "config": rep.get("config"),
           "violation_class": list(cls), "violation": v, "occurrences_in_this_invocation": count,
           "steps": steps, **info, "repo": state}
    with open(path, "w") as f:
        json.dump(doc, f, indent=1)
    log(f"  replay written: {path} ({info['original_steps']} -> {len(steps)} steps, {info['minimiser_tests']} minimiser runs)")
    return path


# =========================================================================== commands

def cmd_check(tier, seed, nworkers, scale):
    t0 = time.time()
    scratch = Scratch()
    os.environ["HTSIM_PYC"] = scratch.dir
    pristine.setup()
    chk = Check(tier, seed, nworkers, scale)
    state = repo_state()
    chk.log(f"htsim check {PROPERTY} tier={tier} VERIF_SEED={seed} workers={chk.nworkers} src={state['src']} "
            f"head={state['git_head'][:12]} srcdigest={state['src_digest']}")
    ctx = multiprocessing.get_context("fork")
    faulthandler.dump_traceback_later(PLAN[tier]["cap"] + 1500, exit=True)
    with cf.ProcessPoolExecutor(max_workers=chk.nworkers, mp_context=ctx, initializer=_worker_init) as pool:
        try:
            audit_f = pool.submit(audit_task)
            chk.run_batches(pool)
            t_batches = time.time() - t0
            chk.audit = audit_f.result().get("audit")
            ref = chk.reference_sampling(scratch)
            det = chk.determinism(pool, scratch)
        except cf.process.BrokenProcessPool as e:
            print(f"HARNESS-ERROR worker pool broke: {e}")
            return 2
    faulthandler.cancel_dump_traceback_later()
    extra = []
    for d in ref["r2_process_dependent"]:
        extra.append({"violation": {"invariant": "I3", "step": 0, "op": d["req"]["op"],
                                    "text": "result depends on the process (two fresh interpreters with different hash "
                                            "seeds disagree)", "detail": d},
                      "steps": [{"id": 1, "kind": "call", "op": d["req"]["op"],
                                 "args": [{"lit": c} for c in d["req"]["args"]],
                                 "kw": [[k, {"lit": c}] for k, c in d["req"]["kw"]]}]})
    for d in ref["r3_diverged"]:
        if d["descriptor_same"]:
            extra.append({"violation": {"invariant": "I3", "step": (d["a"] or {}).get("id", 0),
                                        "op": (d["a"] or {}).get("op", "?"),
                                        "text": "same history, different outcome in another process", "detail": d},
                          "steps": chk.kept[(d["batch"], d["i"])]["steps"]})
        else:
            chk.harness_errors.append({"job": d, "error": "R3 replay diverged in step descriptors (harness determinism)"})
    for d in ref["r2_proxy_wrong"]:
        chk.harness_errors.append({"job": d, "error": "pristine-fork proxy disagrees with fresh interpreters"})
    for d in det["mismatches"]:
        chk.harness_errors.append({"job": d, "error": "determinism self-test: same seed, different event log"})
    for d in det.get("process_dependent", []):
        extra.append({"violation": {"invariant": "I3", "step": (d["a"] or {}).get("id", 0), "op": (d["a"] or {}).get("op", "?"),
                                    "text": "same seed, same history prefix, different outcome in a fresh interpreter with "
                                            "another hash seed", "detail": d},
                      "steps": chk.kept[(d["batch"], d["i"])]["steps"]})
    state_end = repo_state()
    if state_end["src_digest"] != state["src_digest"]:
        # nothing observed in this run can be attributed to ONE tree
        print(f"HARNESS-ERROR the tree under test changed while the check was running "
              f"({state['src_digest']} -> {state_end['src_digest']}); run it again on a quiescent tree")
        return 2
    lines, new, kn = chk.handle_violations(extra)
    wall = time.time() - t0
    ev = evidence(chk, ref, det, state, wall, t_batches, new, kn)
    os.makedirs(evidence_dir(), exist_ok=True)
    with open(os.path.join(evidence_dir(), f"{PROPERTY}.json"), "w") as f:
        json.dump(ev, f, indent=1)
    a = chk.agg
    chk.log(f"runs={a['runs']} judged_calls={a['stats'].get('calls_judged', 0)} faulted_calls={a['stats'].get('calls_faulted', 0)} "
            f"mutations={a['stats'].get('mutations_applied', 0)} distinct_nontrivial={len(a['nontrivial'])} "
            f"states={len(a['states'])} transitions={len(a['transitions'])} R1 miss/hit={a['oracle']['r1_miss']}/{a['oracle']['r1_hit']} "
            f"R2 {ref['r2_agree']}/{ref['r2_keys']} single {ref['r2_single_agree']}/{ref['r2_single']} "
            f"R3 {ref['r3_agree']}/{ref['r3_replays']} det pool {det['pool_rerun_equal']}/{det['seeds']} "
            f"fresh+restart {det['fresh_interpreter_equal']}/{det.get('fresh_interpreter_runs', det['seeds'])} wall={wall:.0f}s")
    for ln in lines:
        print(ln)
    if a.get("generator_errors"):
        chk.log(f"NOTE {len(a['generator_errors'])} histories ended early because of an exception in the workload generator "
                f"(first: {a['generator_errors'][0]['error'].splitlines()[-1][:200]})")
    if chk.harness_errors:
        tol = max(2, a["runs"] // 200)
        only_timeouts = all("watchdog" in h["error"] for h in chk.harness_errors)
        for h in chk.harness_errors[:10]:
            print("HARNESS-ERROR", json.dumps(h)[:1500])
        if not (only_timeouts and len(chk.harness_errors) <= tol):
            return 1 if new else 2
    return 1 if new else 0


def evidence(chk, ref, det, state, wall, t_batches, new, kn):
    a = chk.agg
    st = a["stats"]
    samples = []
    for b in BATCHES:
        rep = chk.kept.get((b, 0)) or next((r for (bb, i), r in sorted(chk.kept.items()) if bb == b), None)
        if rep:
            samples.append({"batch": b, "what": BATCH_DOC[b], "run_seed": rep["job"]["seed"], "config": rep["config"],
                            "steps": _brief_steps(rep["steps"])})
    hours = max(wall, 1e-6) / 3600.0
    fam = lambda p: {k[len(p):]: v for k, v in sorted(st.items()) if k.startswith(p)}  # noqa: E731
    return {
        "property_id": PROPERTY, "tier": chk.tier, "seed": chk.seed, "level": "exploration",
        "wall_s": round(wall, 1), "violations": new,
        "coverage": {
            "evaluations": st.get("calls_judged", 0),
            "distinct_nontrivial": len(a["nontrivial"]),
            "rule": "one case = one history (seeded step list over the public API: calls, caller-side mutations of "
                    "returned objects and of the caller's own argument objects, drops, armed read faults, armed asynchronous "
                    "exceptions, simulated time passing). Distinct = distinct step-list digest. Non-trivial = the history "
                    "contains an adversarial event that took effect (a mutation that changed a canonical value, or a fault "
                    "that fired) FOLLOWED BY a judged call that depends on it (same cache key, or the same call whose result "
                    "was disturbed, or a call receiving the disturbed object), or - for plain histories - a judged cold AND a "
                    "judged warm call on the same cache key. 'evaluations' counts judged calls: result (value or exception "
                    "type+message) compared with the fresh-interpreter value for the argument values at call time (I1); on "
                    "every call, judged or not, every argument is compared before/after (I2) and every other live object is "
                    "checked for having changed behind the caller's back (I4).",
            "samples": samples,
            "states": len(a["states"]), "transitions": len(a["transitions"]),
            "state_measure": "abstract state = (set of table files loaded so far, set of cache keys disturbed since "
                             "last judged); transition = (state, op family, outcome class, faulted?)",
            "runs": a["runs"], "distinct_histories": len(a["histories"]), "steps": st.get("calls", 0)
            + st.get("mutations_applied", 0) + st.get("drops", 0) + st.get("read_faults_armed", 0) + st.get("interrupts_armed", 0),
            "runs_per_hour": round(a["runs"] / hours), "seeds_per_hour": round(a["runs"] / hours),
            "batch_wall_s": round(t_batches, 1),
            "simulated_time_s": round(a.get("sim_time", 0.0), 1),
            "simulated_time_note": "virtual clock advanced between the caller's actions (per-run regime: none / ms / minutes / "
                                   "days / mixed); the pinned library never reads a clock - reads from library frames are counted",
            "clock_reads_by_library_frames": a.get("clock_reads", 0),
            "files_left_in_private_home_or_tmp_by_run_children": a.get("files_written", 0),
            "by_batch": a["by_batch"], "batch_meaning": BATCH_DOC,
            "calls": {"total": st.get("calls", 0), "judged": st.get("calls_judged", 0), "raising": st.get("calls_raising", 0),
                      "faulted_not_judged": st.get("calls_faulted", 0),
                      "unjudged_unrebuildable_argument": st.get("calls_unjudged_unrebuildable", 0),
                      "unjudged_memoryerror_outcome": st.get("calls_unjudged_memoryerror", 0),
                      "judged_after_adversarial_event": st.get("judged_after_adversarial_event", 0),
                      "bystander_checks_I4": st.get("bystander_checks", 0),
                      "by_family": fam("calls:"), "judged_by_family": fam("judged:")},
            "faults": {
                "F1_F2_caller_mutations": {"applied": st.get("mutations_applied", 0), "changed_value": st.get("mutations_changed_value", 0),
                                            "on_object_aliased_to_library_state": st.get("mutations_on_library_alias", 0),
                                            "failed_to_apply": st.get("mutations_failed", 0), "by_kind": fam("mut:"),
                                            "drops": st.get("drops", 0)},
                "F3_read_faults": {"armed": st.get("read_faults_armed", 0), "fired": st.get("read_faults_fired", 0),
                                   "armed_not_fired": st.get("read_faults_not_fired", 0)},
                "F4_interrupts": {"armed": st.get("interrupts_armed", 0), "fired": st.get("interrupts_fired", 0),
                                  "armed_not_fired": st.get("interrupts_not_fired", 0), "by_file": fam("intr_in:"),
                                  "distinct_sites_file_line": len(a["intr_sites"])},
                "F5_other_process": {"r2_keys_two_hash_seeds": ref["r2_keys"], "r3_history_replays": ref["r3_replays"],
                                 "environments": "hash seed 101 / cwd '/' / LC_ALL=C   versus   hash seed 2024 / a cwd that holds "
                                                 "decoy files named like the shipped tables (./ and ./data/) / LC_ALL=POSIX"},
                "F6_failing_requests": {"calls_raising": st.get("calls_raising", 0)},
            },
            "alphabet": {"ops": len(OPS), "ops_called": len(fam("op:")), "ops_never_called": sorted(set(OPS) - set(fam("op:"))),
                         "calls_by_op": fam("op:"), "public_api_audit": getattr(chk, "audit", None)},
            "scripted": {"K5_template_reached": st.get("k5_reached", 0), "K5_template_unreachable": st.get("k5_unreachable", 0),
                         "K5_ops_unreachable_in_some_run": sorted(a.get("k5_unreachable_ops", set())),
                         "K8_hammer_reached": st.get("k8_reached", 0), "K8_hammer_unreachable": st.get("k8_unreachable", 0),
                         "K8_requests_in_hammer_loops": st.get("k8_repeats", 0), "K8_longest_loop": st.get("k8_longest", 0),
                         "K8_ops_unreachable_in_some_run": sorted(a.get("k8_unreachable_ops", set()))},
            "returned_subobjects_aliased_to_library_state": st.get("returned_subobjects_aliased_to_library_state", 0),
            "cold_loads": st.get("cold_loads", 0), "tables_loaded": sorted(a["warm_files"]), "cold_loads_by_table": fam("cold:"),
            "oracle": {"R1_pristine_fork": a["oracle"], "R2": {k: ref[k] for k in ("r2_keys", "r2_agree", "r2_single", "r2_single_agree")},
                       "R2_process_dependent": len(ref["r2_process_dependent"]), "R2_proxy_wrong": len(ref["r2_proxy_wrong"]),
                       "R3": {"replays": ref["r3_replays"], "agree": ref["r3_agree"], "diverged": len(ref["r3_diverged"])},
                       "fresh_interpreters": ref["interpreters"][:4]},
            "determinism_selftest": det,
            "opaque_values_seen": a["opaque"], "workload_generator_errors": a.get("generator_errors", [])[:5],
            "workload_generator_error_count": len(a.get("generator_errors", [])), "harness_errors": len(chk.harness_errors), "run_timeouts": a["timeouts"],
            "truncated_by_wall_cap": chk.truncated, "known_findings_reported": kn,
            "components": {"real": ["htstabilizer (all modules, working tree " + state["src"] + ")", "qiskit", "numpy",
                                    "importlib.resources file reads of the shipped tables"],
                           "stub": ["measurement backend: FakeResult.get_counts() returning history data"],
                           "simulator_owned": ["caller (seeded program, adversarial between calls)", "table-read failure switch",
                                               "asynchronous-exception channel (sys.settrace)", "process boundary (fork / fresh interpreters)"]},
            "repo": state,
        },
        "assumptions": [
            "equality is equality of canonical forms (DESIGN 2.7): QuantumCircuit.name, array strides are excluded",
            "R1 (fork of a pristine image that has qiskit imported) is a proxy for a fresh interpreter; R2 samples measure the proxy",
            "interrupt points are Python line events in library frames only",
            "a seeded sample of an infinite space: evidence, not proof",
        ],
    }


def _brief_steps(steps):
    out = []
    for s in steps[:40]:
        t = json.dumps(s, separators=(",", ":"))
        out.append(json.loads(t) if len(t) < 600 else {"id": s["id"], "kind": s["kind"], "op": s.get("op"),
                                                     "abridged": t[:300] + "..."})
    return out


def cmd_replay(path):
    pristine_scratch = Scratch()
    os.environ["HTSIM_PYC"] = pristine_scratch.dir
    pristine.setup()
    with open(path) as f:
        doc = json.load(f)
    from . import worker
    cls = tuple(doc["violation_class"])
    if cls[0] == "I3":
        # process-dependence: the same call / the same history in fresh interpreters with different hash seeds
        from . import fresh
        decoy = build_decoy_cwd(pristine_scratch.dir)
        envs = [(0, "/"), (101, "/"), (2024, decoy), (31337, decoy), (7, "/")]     # the environments the check itself uses
        if doc["violation"].get("i3_mode") == "single":
            st = doc["steps"][0]
            req = {"op": st["op"], "args": [a["lit"] for a in st["args"]], "kw": [[k, a["lit"]] for k, a in st["kw"]], "same": {}}
            ps = [fresh.launch({"mode": "single", "req": req}, hs, VERIF, cwd) for hs, cwd in envs]
            outs = [fresh.collect(p)["out"] for p in ps]
            bad = any(o.get("out") != outs[0].get("out") for o in outs)
        else:
            job = {"mode": "replay", "steps": doc["steps"], "judge": False, "want_events": True}
            ps = [fresh.launch({"mode": "replay", "jobs": [job]}, hs, VERIF, cwd) for hs, cwd in envs]
            logs = [project(fresh.collect(p)["out"][0].get("events") or []) for p in ps]
            # ... and twice in a row over ONE home / cache / temp directory (restart: only what is on disk survives)
            import tempfile
            home = tempfile.mkdtemp(prefix="home-restart-", dir=pristine_scratch.dir)
            job2 = dict(job, keep_home=True)
            for _ in range(2):
                logs.append(project(fresh.collect(fresh.launch({"mode": "replay", "jobs": [job2]}, 0, VERIF, "/", "C", home=home))
                                    ["out"][0].get("events") or []))
            bad = False
            for lg in logs[1:]:
                idx = next((n for n, (x, y) in enumerate(zip(logs[0], lg)) if x != y), None)
                if idx is not None and all(logs[0][idx].get(q) == lg[idx].get(q) for q in ("id", "kind", "op", "pre")):
                    bad = True
                    print("   step", logs[0][idx].get("id"), logs[0][idx].get("op"), "outcome differs between processes")
    else:
        rep = worker.run_job({"mode": "replay", "steps": doc["steps"], "judge": True, "want_events": True})
        if "harness_error" in rep:
            print("HARNESS-ERROR", rep["harness_error"])
            return 2
        bad = any(vclass(v) == cls for v in rep["violations"])
        for v in rep["violations"]:
            print("  ", v["invariant"], "step", v["step"], v["op"], "-", v["text"])
    if bad:
        print(f"VIOLATION property={PROPERTY} replay={path}")
        return 1
    print(f"replay of {path}: violation class {cls} did NOT reproduce on this tree")
    return 0


def main(argv):
    ap = argparse.ArgumentParser(prog="check")
    ap.add_argument("what")
    ap.add_argument("sub", nargs="?")
    ap.add_argument("--tier", default=os.environ.get("VERIF_TIER") or "quick")
    ap.add_argument("--seed", type=int, default=int(os.environ.get("VERIF_SEED") or 0))
    ap.add_argument("--replay")
    ap.add_argument("--workers", type=int, default=None)
    ap.add_argument("--scale", type=float, default=float(os.environ.get("HTSIM_SCALE") or 1.0))
    ap.add_argument("--n", type=int, default=None)
    a = ap.parse_args(argv)
    if a.tier not in PLAN:
        a.tier = "quick"
    if a.what == PROPERTY:
        if a.replay:
            return cmd_replay(a.replay)
        return cmd_check(a.tier, a.seed, a.workers, a.scale)
    if a.what == "selftest":
        from . import selftest
        return selftest.main(a)
    print("usage: check C13 [--tier quick|thorough] [--seed N] | check C13 --replay FILE | check selftest determinism|sensitivity")
    return 2
