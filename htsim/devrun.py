"""development helper: run a few generated histories in-process from a pristine parent"""
import sys, json, time
from . import pristine
def main():
    pristine.setup()
    from . import worker
    batch = sys.argv[1]; seeds = [int(x) for x in sys.argv[2:]]
    for s in seeds:
        t=time.time()
        rep = worker.run_job({"mode":"generate","seed":s,"batch":batch})
        dt=time.time()-t
        if "harness_error" in rep:
            print("SEED",s,"HARNESS ERROR\n",rep["harness_error"]); continue
        print("SEED",s,"steps",len(rep["steps"]),"viol",len(rep["violations"]),"nontrivial",rep["nontrivial"],"%.2fs"%dt, {k:v for k,v in rep["stats"].items() if ':' not in k})
        for v in rep["violations"][:3]:
            print("   VIOL", v["invariant"], v["op"], v["text"], json.dumps(v["detail"])[:600])
    print(worker.ORACLE_STATS)
if __name__=="__main__": main()
