"""Executes a history step by step against the real library and checks the C13 invariants.

Step language (plain JSON; see DESIGN.md 2.5):
  {"id":k,"kind":"call","op":name,"args":[A..],"kw":[[k,A]..]}
  {"id":k,"kind":"lit","value":canon}                          caller builds one of its own objects
  {"id":k,"kind":"mutate","target":{"ref":r,"path":[..]},"mut":name,"params":{..}}
  {"id":k,"kind":"drop","ref":r}
  {"id":k,"kind":"arm_read","match":"next"|filename,"exc":name}
  {"id":k,"kind":"arm_intr","scope":"any"|file,"ordinal":n|null,"frac":f|null,"exc":name}
  A ::= {"lit":canon} | {"ref":r,"path":[..]}
path element ::= int | ["a",attr] | ["k",strkey] | ["ki",n]
"""
import gc
import math

from . import canon as C
from . import seams
from .evalcore import HarnessError, invoke, outcome_canon, same_map
from .ops import OPS, Lib


class Unresolvable(Exception):
    pass


# --------------------------------------------------------------------------- navigation

def navigate(obj, path):
    for el in path:
        try:
            if isinstance(el, int):
                obj = obj[el]
            elif el[0] == "a":
                obj = getattr(obj, el[1])
            elif el[0] == "k":
                obj = obj[el[1]]
            elif el[0] == "ki":
                obj = list(obj.values())[el[1]]
            else:
                raise Unresolvable(f"bad path element {el}")
        except Unresolvable:
            raise
        except Exception as e:
            raise Unresolvable(f"{type(e).__name__} at {el}")
    return obj


def kind_of(o):
    import enum
    import numpy as np
    if isinstance(o, enum.Enum):
        return None     # enum members are immutable values (and class-level singletons), not caller-mutable objects
    if isinstance(o, list):
        return "list"
    if isinstance(o, tuple):
        return "tuple"
    if isinstance(o, dict):
        return "dict"
    if isinstance(o, np.ndarray):
        return "nd"
    if C._is_qc(o):
        return "qc"
    if C._is_lib_obj(o):
        return type(o).__name__
    return None


def subobjects(root, max_depth=5, fan=5):
    """Navigable mutable sub-objects of a returned value: [(path, obj, kind)] in deterministic order."""
    out = []
    seen = set()

    def walk(o, path, depth):
        k = kind_of(o)
        if k is None or id(o) in seen:
            return
        seen.add(id(o))
        out.append((path, o, k))
        if depth >= max_depth:
            return
        if k in ("list", "tuple"):
            n = len(o)
            idx = list(range(min(n, fan)))
            if n > fan:
                idx.append(n - 1)
            for i in idx:
                walk(o[i], path + [i], depth + 1)
        elif k == "dict":
            for n, (key, v) in enumerate(o.items()):
                if n >= fan:
                    break
                walk(v, path + [["k", key] if isinstance(key, str) else ["ki", n]], depth + 1)
        elif k == "qc":
            md = o.metadata
            if isinstance(md, dict) and md:
                walk(md, path + [["a", "metadata"]], depth + 1)
        elif k == "nd":
            pass
        else:
            for name, v in C.lib_attrs(o):
                walk(v, path + [["a", name]], depth + 1)

    walk(root, [], 0)
    return out


# --------------------------------------------------------------------------- caller-side mutations

def apply_mutation(o, kind, mut, p):
    """Type-preserving caller-side mutation (DESIGN 2.6). Raises on inapplicable parameters."""
    import numpy as np
    if kind == "list":
        if mut == "clear":
            o.clear()
        elif mut == "pop":
            o.pop(p.get("i", -1))
        elif mut == "append":
            o.append(C.rebuild(p["junk"]))
        elif mut == "reverse":
            o.reverse()
        elif mut == "sort":
            o.sort()
        elif mut == "set":
            o[p["i"]] = C.rebuild(p["junk"])
        elif mut == "del":
            del o[p["i"]]
        elif mut == "swap":
            o[p["i"]], o[p["j"]] = o[p["j"]], o[p["i"]]
        else:
            raise ValueError(mut)
    elif kind == "dict":
        if mut == "clear":
            o.clear()
        elif mut == "set":
            o[p["key"]] = C.rebuild(p["junk"])
        elif mut == "pop":
            o.pop(list(o.keys())[p["i"]])
        elif mut == "setval":
            o[list(o.keys())[p["i"]]] = C.rebuild(p["junk"])
        else:
            raise ValueError(mut)
    elif kind == "qc":
        if mut == "gate":
            getattr(o, p["g"])(*p["q"])
        elif mut == "del_data":
            del o.data[p["i"]]
        elif mut == "clear":
            o.clear()
        elif mut == "phase":
            o.global_phase = o.global_phase + math.pi / 2
        elif mut == "measure_all":
            o.measure_all()
        elif mut == "set_md":
            o.metadata[p["key"]] = C.rebuild(p["junk"])
        elif mut == "set_name":
            o.name = p["name"]
        elif mut == "set_param":
            # the caller edits a parameter of one of its parameterised gates (k-th such gate, cyclically)
            idx = [i for i, inst in enumerate(o.data) if inst.operation.params]
            if not idx:
                raise ValueError("no parameterised gate")
            i = idx[p["k"] % len(idx)]
            inst = o.data[i]
            op = inst.operation
            o.data[i] = inst.replace(operation=op.base_class(*([p["v"]] + list(op.params[1:]))))
        else:
            raise ValueError(mut)
    elif kind == "nd":
        if mut == "flip":
            idx = tuple(p["idx"])
            if o.dtype.kind == "b":
                o[idx] = not o[idx]
            elif o.dtype.kind in "iu":
                o[idx] ^= 1
            else:
                o[idx] += 1
        elif mut == "flip_sym":
            i, j = p["idx"]
            o[i, j] ^= 1
            o[j, i] = o[i, j]
        elif mut == "fill":
            o.fill(p["v"])
        elif mut == "swapcols":
            o[:, [p["i"], p["j"]]] = o[:, [p["j"], p["i"]]]
        else:
            raise ValueError(mut)
    elif kind == "tuple":
        raise ValueError("tuples are immutable")
    else:  # library object: public attribute assignment
        if mut == "set_attr":
            if p["name"].startswith("_"):
                raise ValueError("underscore attributes are not in the caller's catalogue")
            setattr(o, p["name"], C.rebuild(p["junk"]))
        else:
            raise ValueError(mut)


# --------------------------------------------------------------------------- executor

class Executor:
    def __init__(self, oracle=None, alias_guidance=True, count_lines=False, record_args=False, bystanders=True):
        """oracle: callable(req)->resp implementing F (None => outcomes are recorded but not judged)."""
        self.L = Lib()
        self.L.import_all()
        self.reader = seams.install_reader()
        seams.pin_randomness()
        self.clock = seams.SimClock().install()
        self.clock_dt = 0.0
        self.oracle = oracle
        self.alias_guidance = alias_guidance
        self.count_lines = count_lines
        self.record_args = record_args
        self.bystanders = bystanders   # I4: earlier results must not change during a library call they are not part of
        self.digests = {}
        self.slots = {}          # id -> live object
        self.meta = {}           # id -> {"tag","op","args","kw","key","subs":[(path,kind,aliased)]}
        self.events = []
        self.violations = []
        self.pending_read = None
        self.pending_intr = None
        self.stats = {}
        self.warm = set()        # table files served so far (abstract state)
        self.tainted = set()     # cache keys touched by an adversarial event since last judged
        self.tainted_sigs = set()  # (op, argument digests) of calls whose RESULT the caller has since disturbed
        self.states = set()
        self.transitions = set()
        self.intr_sites = set()

    # ---- small helpers
    def _bump(self, k, n=1):
        self.stats[k] = self.stats.get(k, 0) + n

    def _resolve(self, A):
        if "lit" in A:
            return C.rebuild(A["lit"])
        if A["ref"] not in self.slots:
            raise Unresolvable(f"slot {A['ref']} gone")
        return navigate(self.slots[A["ref"]], A.get("path") or [])

    def _state(self):
        return (tuple(sorted(self.warm)), tuple(sorted(self.tainted)))

    # ---- steps
    def step(self, st):
        kind = st["kind"]
        ev = {"id": st["id"], "kind": kind}
        self.clock.advance(st.get("dt", 0.0))      # simulated time passes between the caller's actions
        try:
            getattr(self, "_do_" + kind)(st, ev)
        except Unresolvable as e:
            ev["skipped"] = "unresolvable: " + str(e)
            self._bump("steps_unresolvable")
        except C.Unrebuildable as e:
            ev["skipped"] = "unrebuildable literal: " + str(e)
            self._bump("steps_unrebuildable")
        if self.bystanders and kind in ("mutate", "lit"):
            self._refresh_digests()   # caller-side events may change other caller-held objects through caller-made aliases
        self.events.append(ev)
        self.states.add(self._state())
        return ev

    def _do_lit(self, st, ev):
        o = C.rebuild(st["value"])
        self.slots[st["id"]] = o
        self._register(st["id"], o, st["value"], {"op": "lit"})
        ev["tag"] = self.meta[st["id"]]["tag"]

    def _do_drop(self, st, ev):
        self.slots.pop(st["ref"], None)
        self.meta.pop(st["ref"], None)
        self.digests.pop(st["ref"], None)
        gc.collect()
        self._bump("drops")

    def _do_arm_read(self, st, ev):
        self.pending_read = (st["match"], st["exc"])
        self._bump("read_faults_armed")

    def _do_arm_intr(self, st, ev):
        self.pending_intr = dict(st)
        self._bump("interrupts_armed")

    def _do_mutate(self, st, ev):
        t = st["target"]
        if t["ref"] not in self.slots:
            raise Unresolvable(f"slot {t['ref']} gone")
        root = self.slots[t["ref"]]
        o = navigate(root, t.get("path") or [])
        k = kind_of(o)
        before = C.digest(C.canon(root))
        aliased = self.alias_guidance and id(o) in seams.library_state_ids()
        try:
            apply_mutation(o, k, st["mut"], st.get("params") or {})
            ev["applied"] = True
        except (Unresolvable, C.Unrebuildable):
            raise
        except Exception as e:
            ev["applied"] = False
            ev["error"] = type(e).__name__
            self._bump("mutations_failed")
            return
        after = C.digest(C.canon(root))
        ev["changed"] = before != after
        ev["on_alias"] = bool(aliased)
        ev["objkind"] = k
        self._bump("mutations_applied")
        self._bump(f"mut:{k}.{st['mut']}")
        if ev["changed"]:
            self._bump("mutations_changed_value")
        if aliased:
            self._bump("mutations_on_library_alias")
        key = (self.meta.get(t["ref"]) or {}).get("key")
        if key and ev["changed"]:
            self.tainted.add(key)
        m = self.meta.get(t["ref"])
        if m is not None:
            m["mutated"] = True
            if ev["changed"] and m.get("sig"):
                self.tainted_sigs.add(m["sig"])

    def _do_call(self, st, ev):
        spec = OPS[st["op"]]
        pos = [self._resolve(A) for A in st.get("args", [])]
        kwl = [(k, self._resolve(A)) for k, A in st.get("kw", [])]
        vals = pos + [v for _, v in kwl]
        same = same_map(vals)
        pre = [C.canon(v) for v in vals]
        inplace = spec.inplace_args(pos, dict(kwl))
        ev["op"] = st["op"]
        ev["pre"] = [C.digest(c) for c in pre]
        if self.record_args:
            ev["pre_canon"] = pre
        key = _cache_key(st["op"], pre)
        ev["key"] = key

        # arm faults for this call only
        fired_read = fired_intr = None
        intr = None
        if self.pending_read is not None:
            self.reader.armed = self.pending_read
            self.reader.fired = None
        if self.pending_intr is not None:
            pi = self.pending_intr
            ordinal = pi.get("ordinal")
            if ordinal is None:
                # ordinal given as a fraction of the call's own line-event count in the current state:
                # measured by a forked probe so that the live state is not disturbed
                total = self._probe_line_count(spec, pos, dict(kwl), pi["scope"])
                ev["intr_total"] = total
                ordinal = max(1, min(total, 1 + int(pi["frac"] * total))) if total > 0 else 1
            ev["intr_ordinal"] = ordinal
            intr = seams.Interrupter(pi["scope"], ordinal, pi["exc"])
        elif self.count_lines:
            intr = seams.Interrupter("any", None)

        nlog = len(self.reader.log)
        if intr is not None:
            with intr:
                kind, value = invoke(spec, self.L, pos, dict(kwl))
        else:
            kind, value = invoke(spec, self.L, pos, dict(kwl))

        if self.pending_read is not None:
            fired_read = self.reader.fired
            self.reader.armed = None
            self.reader.fired = None
            self.pending_read = None
            self._bump("read_faults_fired" if fired_read else "read_faults_not_fired")
            if fired_read:
                ev["read_fault_fired"] = fired_read
        if self.pending_intr is not None:
            fired_intr = intr.fired_at
            self.pending_intr = None
            self._bump("interrupts_fired" if fired_intr else "interrupts_not_fired")
            if fired_intr:
                ev["intr_fired_at"] = list(fired_intr)
                self.intr_sites.add(tuple(fired_intr))
                self._bump("intr_in:" + fired_intr[0])
        if intr is not None:
            ev["lines"] = intr.count
        for name, what in self.reader.log[nlog:]:
            if what == "served":
                self.warm.add(name)
                self._bump("cold_loads")
                self._bump("cold:" + name)
        ev["reads"] = [list(x) for x in self.reader.log[nlog:]]

        faulted = bool(fired_read or fired_intr)
        out = outcome_canon(kind, value, vals)
        post = [C.canon(v) for v in vals]
        ev["out"] = C.digest(out)
        ev["outkind"] = kind if kind == "ok" else out["v"]["c"]
        ev["faulted"] = faulted
        self._bump("calls")
        self._bump("calls:" + spec.family)
        self._bump("op:" + st["op"])
        if kind == "exc":
            self._bump("calls_raising")

        # I2 - arguments untouched (always checked, also for faulted calls)
        for i, (a, b) in enumerate(zip(pre, post)):
            if i in inplace:
                continue
            if i in same and same[i] in inplace:
                continue
            if a != b:
                self._violation(ev, st, "I2", f"argument {i} of {st['op']} was modified by the call",
                                {"arg": i, "before": a, "after": b})

        # I1 - result equals the fresh-interpreter value F(op, args at call time)
        if faulted:
            self._bump("calls_faulted")
            if key:
                self.tainted.add(key)
        elif kind == "exc" and isinstance(value, MemoryError):
            # a genuine (not injected) MemoryError is a resource limit of this process, not a value: where the
            # address-space limit bites depends on how much the process already holds, so it is never compared
            ev["unjudged"] = "MemoryError outcome (resource limit)"
            self._bump("calls_unjudged_memoryerror")
        elif self.oracle is not None:
            req = {"op": st["op"], "args": pre[:len(pos)],
                   "kw": [[k, pre[len(pos) + n]] for n, (k, _) in enumerate(kwl)],
                   "same": {str(j): i for j, i in same.items()}}
            ref = self.oracle(req)
            if "unrebuildable" in ref:
                ev["unjudged"] = ref["unrebuildable"]
                self._bump("calls_unjudged_unrebuildable")
            elif ref["out"]["k"] == "exc" and ref["out"]["v"].get("c", "").endswith(":MemoryError"):
                ev["unjudged"] = "MemoryError in the reference (resource limit)"
                self._bump("calls_unjudged_memoryerror")
            else:
                if not ref["roundtrip_ok"]:
                    raise HarnessError(f"canon(rebuild(c)) != c for an argument of {st['op']}: "
                                       f"{C.cjson(req)[:400]}")
                self._bump("calls_judged")
                self._bump("judged:" + spec.family)
                ev["judged"] = True
                sig = (st["op"], tuple(ev["pre"]))
                arg_mutated = any((self.meta.get(A.get("ref")) or {}).get("mutated")
                                  for A in list(st.get("args", [])) + [a for _, a in st.get("kw", [])] if "ref" in A)
                if (key and key in self.tainted) or sig in self.tainted_sigs or arg_mutated:
                    self._bump("judged_after_adversarial_event")
                    ev["after_taint"] = True
                    self.tainted.discard(key)
                    self.tainted_sigs.discard(sig)
                if ref["out"] != out:
                    self._violation(ev, st, "I1", f"result of {st['op']} differs from a fresh interpreter",
                                    {"live": out, "fresh": ref["out"]})
                for i in inplace:
                    if i < len(post) and ref["post"][i] != post[i]:
                        self._violation(ev, st, "I1", f"in-place argument {i} of {st['op']} ends in a state "
                                        "different from a fresh interpreter", {"live": post[i], "fresh": ref["post"][i]})
                for i, (a, b) in enumerate(zip(pre, ref["post"])):
                    if i in inplace or (i in same and same[i] in inplace):
                        continue
                    if a != b:
                        self._violation(ev, st, "I2", f"argument {i} of {st['op']} is modified by the call "
                                        "(in a fresh interpreter as well)", {"arg": i, "before": a, "after": b})
        self.transitions.add((self._state(), spec.family, ev["outkind"] if kind == "exc" else "ok", faulted))

        # I4 - bystanders: an object the library returned earlier (or a caller-owned literal) that is NOT an
        # argument of this call must not change value during it, unless it shares a sub-object with a
        # documented in-place argument (e.g. Stabilizer(graph) shares graph.adjacency_matrix)
        if self.bystanders:
            self._check_bystanders(ev, st, vals, inplace, same)

        # keep the result alive in its slot
        if kind == "ok":
            self.slots[st["id"]] = value
            self._register(st["id"], value, out["v"], {"op": st["op"], "args": st.get("args", []),
                                                      "kw": st.get("kw", []), "key": key,
                                                      "sig": (st["op"], tuple(ev["pre"]))})
            ev["tag"] = self.meta[st["id"]]["tag"]
        else:
            ev["tag"] = "exc"

    # ---- support
    def _refresh_digests(self):
        for sid, o in self.slots.items():
            self.digests[sid] = C.digest(C.canon(o))

    def _check_bystanders(self, ev, st, vals, inplace, same):
        arg_ids = {id(v) for v in vals}
        inplace_vals = [vals[i] for i in range(len(vals)) if i in inplace or (i in same and same[i] in inplace)]
        shared = None
        changed = []
        for sid, o in self.slots.items():
            d = C.digest(C.canon(o))
            if d == self.digests.get(sid):
                continue
            self.digests[sid] = d
            if id(o) in arg_ids:
                continue            # arguments are judged by I2 / the in-place rule
            if shared is None:
                shared = set()
                for v in vals:      # anything reachable from an argument was handed to the call as well
                    shared |= _identity_closure(v)
            if _identity_closure(o) & shared:
                # part of an argument (e.g. slot = r3 and argument = r3[0]) or memory shared with one:
                # if that argument is in-place the change is legitimate, otherwise I2 has already spoken
                continue
            changed.append(sid)
        self._bump("bystander_checks")
        for sid in changed:
            m = self.meta.get(sid, {})
            self._violation(ev, st, "I4", f"an object returned earlier by {m.get('op')} (slot {sid}) changed value during "
                            f"{st['op']} although it is not an argument of that call", {"slot": sid, "producer": m.get("op")})

    def _register(self, sid, value, canon_value, info):
        subs = []
        ids = seams.library_state_ids() if self.alias_guidance else ()
        for path, o, k in subobjects(value):
            al = id(o) in ids
            subs.append((path, k, al, _shape_hint(o, k)))
            if al:
                self._bump("returned_subobjects_aliased_to_library_state")
        m = dict(info)
        m["tag"] = C.type_tag(canon_value)
        m["subs"] = subs
        m["canon"] = canon_value if len(C.cjson(canon_value)) < 30000 else None
        m["info"] = _summarise(canon_value, info)
        self.meta[sid] = m
        if self.bystanders:
            self.digests[sid] = C.digest(canon_value)

    def _probe_line_count(self, spec, pos, kw, scope):
        """Line events the armed call would execute in the current state (forked probe: the live
        state is untouched)."""
        import os
        r, w = os.pipe()
        pid = os.fork()
        if pid == 0:
            try:
                os.close(r)
                self.reader.armed = None
                cnt = seams.Interrupter(scope, None)
                with cnt:
                    invoke(spec, self.L, pos, kw)
                os.write(w, str(cnt.count).encode())
            finally:
                os._exit(0)
        os.close(w)
        data = b""
        while True:
            chunk = os.read(r, 64)
            if not chunk:
                break
            data += chunk
        os.close(r)
        os.waitpid(pid, 0)
        if not data:
            raise HarnessError("line-count probe died")
        return int(data)

    def _violation(self, ev, st, inv, text, detail):
        v = {"invariant": inv, "step": st["id"], "op": st["op"], "text": text, "detail": detail}
        ev.setdefault("violations", []).append(inv)
        self.violations.append(v)


def _identity_closure(root):
    """ids of every mutable sub-object reachable from a value (arrays also through their .base chain)."""
    import numpy as np
    out = set()
    stack = [root]
    while stack:
        o = stack.pop()
        k = kind_of(o)
        if k is None or id(o) in out:
            continue
        out.add(id(o))
        if k in ("list", "tuple"):
            stack.extend(o)
        elif k == "dict":
            stack.extend(o.values())
        elif k == "nd":
            b = o.base
            while b is not None and isinstance(b, np.ndarray):
                out.add(id(b))
                b = b.base
        elif k == "qc":
            if isinstance(o.metadata, dict):
                stack.append(o.metadata)
        else:
            stack.extend(v for _, v in C.lib_attrs(o))
    return out


def _shape_hint(o, k):
    if k in ("list", "tuple", "dict"):
        return len(o)
    if k == "nd":
        return list(o.shape)
    if k == "qc":
        return [o.num_qubits, len(o.data)]
    return [[n, type(v).__name__] for n, v in C.lib_attrs(o)]


def _attr(c, name):
    for n, v in c.get("a", []):
        if n == name:
            return v
    return None


def _qc_info(c):
    out = {"nq": c["nq"], "nc": c["nc"]}
    for k, v in c["md"]["v"] if isinstance(c.get("md"), dict) and c["md"].get("t") == "dict" else []:
        if k == "readout info" and isinstance(v, dict) and v.get("t") == "obj":
            rc = _attr(v, "circuit")
            if isinstance(rc, dict) and rc.get("t") == "qc":
                out["nm"] = rc["nq"]
    return out


def _summarise(c, info):
    """Small deterministic facts about a slot's value at creation, for the generator's typed needs."""
    out = {}
    if not isinstance(c, dict):
        return out
    t = c.get("t")
    if t == "obj":
        cls = c["c"].split(":")[1]
        if cls == "Stabilizer":
            out["n"] = _attr(c, "num_qubits")
        elif cls == "Graph":
            out["n"] = _attr(c, "num_vertices")
        elif cls == "Repr" and info.get("op") == "lin.to":
            a0 = (info.get("args") or [{}])[0]
            out["lin_name"] = a0.get("lit") if isinstance(a0.get("lit"), str) else None
    elif t == "qc":
        out.update(_qc_info(c))
    elif t == "list":
        out["len"] = len(c["v"])
        if c["v"] and isinstance(c["v"][0], dict) and c["v"][0].get("t") == "qc":
            out.update(_qc_info(c["v"][0]))
        elif c["v"] and isinstance(c["v"][0], dict) and c["v"][0].get("t") == "list":
            inner = c["v"][0]["v"]
            if inner and isinstance(inner[0], str):
                out["n_str"] = len(inner[0].lstrip("+-"))
    return out


def canon_at(c, path):
    """The canonical sub-value at `path` (None when it cannot be followed)."""
    try:
        for el in path:
            t = c.get("t") if isinstance(c, dict) else None
            if isinstance(el, int):
                c = c["v"][el]
            elif el[0] == "a":
                c = c["md"] if (t == "qc" and el[1] == "metadata") else _attr(c, el[1])
            elif el[0] == "k":
                c = next(v for k, v in c["v"] if k == el[1])
            elif el[0] == "ki":
                c = c["v"][el[1]][1]
            else:
                return None
        return c
    except Exception:
        return None


def _cache_key(op, pre):
    """Abstract cache key (n, connectivity) a call depends on - for coverage accounting and targeting."""
    n = conn = None
    for c in pre:
        if isinstance(c, bool):
            continue
        if isinstance(c, dict) and c.get("t") == "nps" and c.get("dt", "").startswith(("int", "uint")) and n is None:
            try:
                n = int(c["r"])       # a qubit count given as a numpy integer
            except ValueError:
                pass
            continue
        if isinstance(c, int) and n is None:
            n = c
        elif isinstance(c, str) and conn is None and len(c) < 12:
            conn = c
        elif isinstance(c, dict):
            if c.get("t") == "obj" and c["c"].endswith(":Stabilizer"):
                for name, v in c["a"]:
                    if name == "num_qubits" and isinstance(v, int) and n is None:
                        n = v
            elif c.get("t") == "qc" and n is None:
                n = c["nq"]
    fam = op.split(".")[0]
    if fam in ("prep", "mub", "tomo", "lookup"):
        if fam in ("prep", "tomo") and conn is None:
            conn = "all"
        kind = "mub" if (fam == "mub" or "mub" in op or "full_state" in op or "FST" in op) else "stabilizer"
        if n is not None and conn is not None and 0 <= n <= 9:
            return f"{kind}{n}-{conn}"
    return None
