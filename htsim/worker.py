"""Process plumbing (DESIGN 2.2). Everything here runs in a PRISTINE process W.

    W ──fork──> run child C      executes ONE history, asks W for reference values over a pipe
    W ──fork──> oracle child O   evaluates ONE (op, canonical args) from the pristine state, exits

W is single threaded and serves exactly one C at a time. The reference memo lives in W, in memory,
for the lifetime of one check invocation only.
"""
import json
import os
import signal
import struct
import sys
import traceback

from . import pristine

MEMO = {}
ORACLE_STATS = {"r1_miss": 0, "r1_hit": 0, "r1_unrebuildable": 0}
RUN_TIMEOUT_S = int(os.environ.get("HTSIM_RUN_TIMEOUT", "300"))
MEM_LIMIT = int(os.environ.get("HTSIM_MEM_LIMIT", str(4 << 30)))


class WorkerError(Exception):
    """Harness failure (dead child, watchdog). Never a violation."""


def _send(fd, obj):
    data = json.dumps(obj, separators=(",", ":")).encode()
    os.write(fd, struct.pack("<I", len(data)))
    off = 0
    while off < len(data):
        off += os.write(fd, data[off:off + 65536])


def _recv(fd):
    hdr = b""
    while len(hdr) < 4:
        c = os.read(fd, 4 - len(hdr))
        if not c:
            return None
        hdr += c
    n = struct.unpack("<I", hdr)[0]
    buf = bytearray()
    while len(buf) < n:
        c = os.read(fd, min(1 << 20, n - len(buf)))
        if not c:
            return None
        buf += c
    return json.loads(bytes(buf))


def _private_dirs(tag):
    """Every child gets its own empty HOME / cache / temp directories under the invocation's scratch space: a tree
    that writes to disk cannot leak state into the reference evaluations, and what it wrote can be counted."""
    base = os.environ.get("HTSIM_PYC")
    if not base:
        return None
    import tempfile
    d = tempfile.mkdtemp(prefix=f"home-{tag}-", dir=base)
    for k in ("HOME", "XDG_CACHE_HOME", "XDG_CONFIG_HOME", "XDG_DATA_HOME", "TMPDIR"):
        os.environ[k] = d
    tempfile.tempdir = None
    return d


def _count_and_remove(d):
    if not d:
        return 0
    import shutil
    n = sum(len(files) for _, _, files in os.walk(d))
    shutil.rmtree(d, ignore_errors=True)
    return n


def _limit_child():
    try:
        import resource
        resource.setrlimit(resource.RLIMIT_AS, (MEM_LIMIT, MEM_LIMIT))
        resource.setrlimit(resource.RLIMIT_CORE, (0, 0))
    except Exception:
        pass


# --------------------------------------------------------------------------- R1: pristine-fork oracle

def oracle_eval_fresh_fork(req):
    """Evaluate req in a fork of the pristine image. Returns the response dict."""
    pristine.assert_pristine()
    r, w = os.pipe()
    pid = os.fork()
    if pid == 0:
        code = 0
        try:
            os.close(r)
            _limit_child()
            signal.alarm(RUN_TIMEOUT_S)
            home = _private_dirs("oracle")
            pristine.import_library_checked()
            from .evalcore import evaluate
            resp = evaluate(req)
            resp["files_written"] = _count_and_remove(home)
            _send(w, resp)
        except BaseException:
            try:
                _send(w, {"harness_error": traceback.format_exc()[-2000:]})
            except Exception:
                pass
            code = 3
        finally:
            os._exit(code)
    os.close(w)
    resp = _recv(r)
    os.close(r)
    _, status = os.waitpid(pid, 0)
    if resp is None:
        raise WorkerError(f"oracle child died (status {status}) on {json.dumps(req)[:300]}")
    if "harness_error" in resp:
        raise WorkerError("oracle child failed: " + resp["harness_error"])
    return resp


def oracle(req):
    import hashlib
    key = hashlib.sha256(json.dumps(req, separators=(",", ":")).encode()).hexdigest()
    hit = MEMO.get(key)
    if hit is not None:
        ORACLE_STATS["r1_hit"] += 1
        return hit
    resp = oracle_eval_fresh_fork(req)
    ORACLE_STATS["r1_miss"] += 1
    if "unrebuildable" in resp:
        ORACLE_STATS["r1_unrebuildable"] += 1
    MEMO[key] = resp
    return resp


# --------------------------------------------------------------------------- run child

def run_job(job):
    """Fork a run child for `job`, serve its oracle requests, return its report.

    job = {"mode":"generate","seed":int,"batch":"K0".."K4", ...} | {"mode":"replay","steps":[...], ...}
    """
    pristine.assert_pristine()
    c2w_r, c2w_w = os.pipe()
    w2c_r, w2c_w = os.pipe()
    sys.stdout.flush()
    sys.stderr.flush()
    pid = os.fork()
    if pid == 0:
        code = 0
        try:
            os.close(c2w_r)
            os.close(w2c_w)
            _limit_child()
            signal.alarm(RUN_TIMEOUT_S)

            def ask(req):
                _send(c2w_w, {"type": "oracle", "req": req})
                resp = _recv(w2c_r)
                if resp is None:
                    raise RuntimeError("worker went away")
                if "worker_error" in resp:
                    from .evalcore import HarnessError
                    raise HarnessError(resp["worker_error"])
                return resp

            home = None if job.get("keep_home") else _private_dirs("run")
            pristine.import_library_checked()
            from .runchild import child_main
            report = child_main(job, ask if job.get("judge", True) else None)
            report["files_written"] = _count_and_remove(home)
            _send(c2w_w, {"type": "done", "report": report})
        except BaseException:
            try:
                _send(c2w_w, {"type": "done", "report": {"harness_error": traceback.format_exc()[-3000:]}})
            except Exception:
                pass
            code = 3
        finally:
            os._exit(code)
    os.close(c2w_w)
    os.close(w2c_r)
    report = None
    try:
        while True:
            msg = _recv(c2w_r)
            if msg is None:
                break
            if msg["type"] == "oracle":
                try:
                    _send(w2c_w, oracle(msg["req"]))
                except WorkerError as e:
                    _send(w2c_w, {"worker_error": str(e)})
            elif msg["type"] == "done":
                report = msg["report"]
                break
    finally:
        os.close(c2w_r)
        os.close(w2c_w)
        _, status = os.waitpid(pid, 0)
    if report is None:
        sig = status & 0x7f
        what = "watchdog timeout" if sig == signal.SIGALRM else f"status {status}"
        report = {"harness_error": f"run child died without a report ({what})", "timeout": sig == signal.SIGALRM}
    report["job"] = {k: v for k, v in job.items() if k != "steps"}
    return report
